#!/bin/bash
# Offline set-up: installs icontract (pure Python) from the local wheelhouse into ./.deps (git-ignored).
here="$(cd "$(dirname "${BASH_SOURCE[0]}")" && pwd)"
mkdir -p "$here/evidence" "$here/replays"
if [ -f "$here/.deps/icontract/__init__.py" ]; then exit 0; fi
(
  flock 9
  if [ ! -f "$here/.deps/icontract/__init__.py" ]; then
    rm -rf "$here/.deps.tmp"
    PIP_NO_INDEX=1 /venv/bin/python -m pip install -q --no-index --find-links /opt/veriftools/wheels \
        --target "$here/.deps.tmp" icontract >/dev/null 2>&1 || exit 1
    rm -rf "$here/.deps" && mv "$here/.deps.tmp" "$here/.deps"
  fi
) 9>"$here/.deps.lock"
