#!/bin/bash
# ./run_all.sh [quick|thorough] [jobs]   - runs every claimed check, prints one line per property, exit 1 if any is not HELD
here="$(cd "$(dirname "${BASH_SOURCE[0]}")" && pwd)"; cd "$here"
tier="${1:-quick}"; jobs="${2:-4}"
./setup.sh || exit 2
mkdir -p /tmp/verif-runall.$$
ls monitors/c[0-9][0-9].py | sed 's/.*\/c\([0-9]*\)\.py/C\1/' | xargs -P "$jobs" -I{} sh -c "./check {} --tier $tier > /tmp/verif-runall.$$/{}.log 2>&1; echo \$? > /tmp/verif-runall.$$/{}.rc"
bad=0
for f in /tmp/verif-runall.$$/*.rc; do p=$(basename "$f" .rc); rc=$(cat "$f"); last=$(grep -E "^(HELD|VIOLATION|INCONCLUSIVE)" /tmp/verif-runall.$$/$p.log | head -1); kf=$(grep -c "^KNOWN-FINDING" /tmp/verif-runall.$$/$p.log)
  wall=$(grep -o "wall=[0-9.]*s" /tmp/verif-runall.$$/$p.log | head -1); echo "$p exit=$rc $wall known_findings=$kf $last"; [ "$rc" != 0 ] && { bad=1; tail -5 /tmp/verif-runall.$$/$p.log; }; done
rm -rf /tmp/verif-runall.$$
exit $bad
