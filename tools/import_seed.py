#!/venv/bin/python
"""Imports a sub-agent's seeded change from its scratch worktree into /verif/seeded/<id>/ after confirming, in a fresh scratch
copy of /repo's tree: (1) patch applies, (2) the repository's own tests still pass with it, (3) the demonstration fails with it,
(4) the demonstration passes without it.  Then runs the property's quick check (and thorough on request) against the patched
copy and records whether it was caught.   usage: import_seed.py Cxx a|b [--thorough] [--props Cxx,Cyy]"""
import json
import os
import shutil
import subprocess
import sys
import tempfile

HERE = os.path.dirname(os.path.dirname(os.path.abspath(__file__)))
PY = '/venv/bin/python'


def sh(cmd, cwd, env=None, timeout=1800):
    r = subprocess.run(cmd, cwd=cwd, capture_output=True, text=True, timeout=timeout, env=env)
    return r.returncode, (r.stdout + r.stderr)


def copy_tree():
    d = tempfile.mkdtemp(prefix='ecagent-seed-', dir='/tmp')
    for name in ('ECAgent', 'tests', 'DummyScripts'):
        shutil.copytree(os.path.join('/repo', name), os.path.join(d, name), ignore=shutil.ignore_patterns('__pycache__'))
    return d


def main():
    prop, which = sys.argv[1], sys.argv[2]
    thorough = '--thorough' in sys.argv
    props = [prop]
    for a in sys.argv:
        if a.startswith('--props='):
            props = a.split('=', 1)[1].split(',')
    src = f'/tmp/wt-{prop}/SEED/{which}' if not os.environ.get('SEED_SRC') else os.environ['SEED_SRC']
    sid = f'{prop}-{which}'
    dst = os.path.join(HERE, 'seeded', sid)
    if os.path.isdir(src):
        os.makedirs(dst, exist_ok=True)
        for f in ('patch.diff', 'demo.py', 'notes.md'):
            shutil.copy(os.path.join(src, f), os.path.join(dst, f))
    env = lambda root: dict(os.environ, PYTHONPATH=root, PYTHONDONTWRITEBYTECODE='1')  # noqa
    ran = []
    # clean copy: demo passes
    clean = copy_tree()
    rc_clean, out_clean = sh([PY, '-B', os.path.join(dst, 'demo.py')], clean, env(clean), 600)
    ran.append('demo.py on an unpatched scratch copy of /repo')
    shutil.rmtree(clean)
    mut = copy_tree()
    rc_p, out_p = sh(['patch', '-p1', '--no-backup-if-mismatch', '-i', os.path.join(dst, 'patch.diff')], mut)
    ran.append('patch -p1 < patch.diff in a scratch copy')
    rc_t, out_t = sh([PY, '-B', '-m', 'pytest', '-q', '-p', 'no:cacheprovider', 'tests'], mut, env(mut), 900)
    ran.append('the repository test-suite in the patched copy')
    rc_d, out_d = sh([PY, '-B', os.path.join(dst, 'demo.py')], mut, env(mut), 600)
    ran.append('demo.py in the patched copy')
    checks = {}
    for p in props:
        for tier in (['quick', 'thorough'] if thorough else ['quick']):
            e = dict(os.environ, VERIF_REPO=mut, VERIF_EVIDENCE_DIR=os.path.join(mut, '.evidence'))
            rc, out = sh([os.path.join(HERE, 'check'), p, '--tier', tier], HERE, e, 3600)
            first = [ln.strip() for ln in out.splitlines() if 'first violation' in ln]
            checks[f'{p}:{tier}'] = {'exit': rc, 'violation_line': any(ln.startswith('VIOLATION') for ln in out.splitlines()),
                                     'what': first[0][:400] if first else '',
                                     'inconclusive': [ln for ln in out.splitlines() if ln.startswith('INCONCLUSIVE')][:2]}
            ran.append(f'./check {p} --tier {tier} with VERIF_REPO=<patched copy>')
            if rc == 1:
                break
    shutil.rmtree(mut)
    notes = open(os.path.join(dst, 'notes.md')).read()
    meta = {
        'id': sid, 'property': prop if len(props) == 1 else props,
        'needs': ' '.join(notes.split())[:900],
        'confirmed': {'patch_applies': rc_p == 0, 'tests_pass_with_patch': rc_t == 0,
                      'pytest_tail': out_t.strip().splitlines()[-1] if out_t.strip() else '',
                      'demo_fails_with_patch': rc_d != 0, 'demo_passes_without_patch': rc_clean == 0,
                      'demo_output_with_patch': out_d.strip()[-400:]},
        'what_i_ran': ran,
        'checks': checks,
        'caught': any(c['exit'] == 1 and c['violation_line'] for c in checks.values()),
        'origin': 'independent sub-agent given only the property text and a scratch worktree',
    }
    valid = rc_p == 0 and rc_t == 0 and rc_d != 0 and rc_clean == 0
    meta['valid'] = valid
    with open(os.path.join(dst, 'meta.json'), 'w') as f:
        json.dump(meta, f, indent=1)
    print(f"{sid}: valid={valid} (applies={rc_p == 0} tests={rc_t == 0} demo_fails={rc_d != 0} clean_ok={rc_clean == 0}) "
          f"caught={meta['caught']}  " + ' | '.join(f'{k}: exit {v["exit"]} {v["what"][:120]}' for k, v in checks.items()))
    if not valid:
        print(out_p[-300:] if rc_p else '', out_t[-300:] if rc_t else '', out_clean[-300:] if rc_clean else '')


if __name__ == '__main__':
    main()
