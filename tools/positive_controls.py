#!/venv/bin/python
"""Positive controls: trees on which the properties HOLD must never raise an alarm.
(1) controls/*.diff - candidate repairs of the known findings: the affected check must exit 0 and print NO KNOWN-FINDING line for the
    repaired mechanism (and every other quick check must stay silent);
(2) controls/refactor-*.diff - behaviour-preserving refactorings written by independent sub-agents: every quick check must exit 0.
Scratch copies live outside /repo and /verif and are removed.   usage: positive_controls.py [--all-checks] [--checks=Cxx,Cyy (nothing stored)] [name-substring ...]"""
import glob
import json
import os
import shutil
import subprocess
import sys
import tempfile

HERE = os.path.dirname(os.path.dirname(os.path.abspath(__file__)))
EXPECT_GONE = {'F1-F2-F3-F6': ('C03', ['resident-attach-unlisted', 'remove-agent-keyerror', 'resident-detach-stays-listed', 'manual-registration-order']),
               'F4': ('C11', ['lookupgenerator-lowdim-world']), 'F5': ('C12', ['wrap-seam-ignored']),
               'F7': ('C15', ['pool-terminate-deadlock'])}
RELATED = {'F1-F2-F3-F6': ['C03', 'C04', 'C08', 'C13', 'C17', 'C07', 'C20', 'C12'], 'F4': ['C11', 'C09'], 'F5': ['C12', 'C08'],
           'F7': ['C15', 'C07', 'C06']}
ALL = [f'C{i:02d}' for i in range(1, 21)]
ONLY_CHECKS = next((a.split('=', 1)[1].split(',') for a in sys.argv[1:] if a.startswith('--checks=')), None)     # results are then NOT stored


def one(patch, name, all_checks):
    root = tempfile.mkdtemp(prefix='ecagent-ctl-', dir='/tmp')
    try:
        for d in ('ECAgent', 'tests', 'DummyScripts'):
            shutil.copytree(os.path.join('/repo', d), os.path.join(root, d), ignore=shutil.ignore_patterns('__pycache__'))
        r = subprocess.run(['patch', '-p1', '--no-backup-if-mismatch', '-i', patch], cwd=root, capture_output=True, text=True)
        if r.returncode:
            print(f'{name}: PATCH FAILED')
            return {'control': name, 'error': 'patch does not apply: ' + r.stdout[-300:]}
        t = subprocess.run(['/venv/bin/python', '-B', '-m', 'pytest', '-q', '-p', 'no:cacheprovider', 'tests'], cwd=root, capture_output=True,
                           text=True, timeout=600, env=dict(os.environ, PYTHONPATH=root))
        key = next((k for k in EXPECT_GONE if name.startswith(k)), None)
        checks = ALL if (all_checks or key is None) else RELATED[key]
        if ONLY_CHECKS:
            checks = ONLY_CHECKS
        res = {'control': name, 'repo_tests': t.stdout.strip().splitlines()[-1] if t.stdout.strip() else '', 'checks': {}}
        for p in checks:
            c = subprocess.run([os.path.join(HERE, 'check'), p, '--tier', 'quick'], capture_output=True, text=True, timeout=3000,
                               env=dict(os.environ, VERIF_REPO=root, VERIF_EVIDENCE_DIR=os.path.join(root, '.evidence')))
            kf = [ln for ln in c.stdout.splitlines() if ln.startswith('KNOWN-FINDING')]
            res['checks'][p] = {'exit': c.returncode, 'known_finding_lines': kf,
                                'first': next((ln.strip() for ln in c.stdout.splitlines() if 'first violation' in ln or ln.startswith('INCONCLUSIVE')), '')}
        bad = [p for p, c in res['checks'].items() if c['exit'] != 0]
        still = []
        if key:
            prop, gone = EXPECT_GONE[key]
            still = [ln for ln in res['checks'].get(prop, {}).get('known_finding_lines', []) if any(g in ln for g in gone)]
        res['ok'] = not bad and not still
        print(f"{name}: {'OK' if res['ok'] else 'ALARM'}  repo tests: {res['repo_tests']}  non-zero: {bad}  findings still reported: {len(still)}")
        for p in bad:
            print('   ', p, res['checks'][p]['first'][:300])
        return res
    finally:
        shutil.rmtree(root, ignore_errors=True)


def main():
    args = [a for a in sys.argv[1:] if not a.startswith('-')]
    all_checks = '--all-checks' in sys.argv
    jobs = 1
    for a in sys.argv[1:]:
        if a.startswith('-j'):
            jobs = int(a[2:] or 4)
    import concurrent.futures
    todo = []
    for patch in sorted(glob.glob(os.path.join(HERE, 'controls', '*.diff'))):
        name = os.path.basename(patch)[:-5]
        if args and not any(a in name for a in args):
            continue
        todo.append((patch, name))
    with concurrent.futures.ThreadPoolExecutor(max_workers=jobs) as ex:
        results = list(ex.map(lambda pn: one(pn[0], pn[1], all_checks), todo))
    if ONLY_CHECKS:
        return 0 if all(r.get('ok') for r in results) else 1
    if args:       # a partial run is merged into the stored results instead of replacing them
        try:
            old = json.load(open(os.path.join(HERE, 'evidence', 'positive_controls.json')))
        except Exception:  # noqa
            old = []
        done = {r['control'] for r in results}
        results = sorted([r for r in old if r['control'] not in done] + results, key=lambda r: r['control'])
    with open(os.path.join(HERE, 'evidence', 'positive_controls.json'), 'w') as f:
        json.dump(results, f, indent=1)
    return 0 if all(r.get('ok') for r in results) else 1


if __name__ == '__main__':
    sys.exit(main())
