#!/bin/bash
# tools/sweep.sh <tier> <seed> [<seed> ...]   runs every check for each seed with evidence redirected to /tmp/evs-<tier>-<seed>; lists what is not HELD
here="$(cd "$(dirname "${BASH_SOURCE[0]}")/.." && pwd)"; cd "$here"
tier="$1"; shift
./setup.sh || exit 2
for sd in "$@"; do
  d=/tmp/evs-$tier-$sd; rm -rf $d; mkdir -p $d
  ( for p in $(seq -w 1 20); do VERIF_SEED=$sd VERIF_EVIDENCE_DIR=$d ./check C$p --tier $tier > $d/C$p.log 2>&1; done ) &
done
wait
bad=0
for sd in "$@"; do for p in $(seq -w 1 20); do f=/tmp/evs-$tier-$sd/C$p.log; grep -q "^HELD" $f || { bad=1; echo "seed $sd C$p:"; tail -4 $f; }; done; done
[ $bad = 0 ] && echo "all HELD: tier=$tier seeds=$*"
exit $bad
