#!/venv/bin/python
"""Keeps coverage floors at or below half of the minimum observed over several seeds, and adds floors for listed new counters.
usage: tools/normalise_floors.py quick|thorough <evidence-dir> [<evidence-dir> ...] [--add Cxx:counter,counter ...]
Each evidence dir holds Cxx.json files written by `VERIF_EVIDENCE_DIR=<dir> VERIF_SEED=<n> ./check Cxx --tier <tier>`.
Floors are only ever lowered (or added); the monitors' source files are rewritten in place."""
import importlib
import json
import os
import re
import sys

HERE = os.path.dirname(os.path.dirname(os.path.abspath(__file__)))
sys.path.insert(0, HERE)
sys.path.insert(1, os.path.join(HERE, '.deps'))


def observed(ev, k):
    cov = ev['coverage']
    if k in ('evaluations', 'distinct_nontrivial'):
        return cov[k]
    if k.startswith('reach:'):
        return cov['reach'].get(k[6:])
    return cov['events'].get(k, 0)


def main():
    tier = sys.argv[1]
    dirs = [a for a in sys.argv[2:] if not a.startswith('--') and os.path.isdir(a)]
    add = {}
    if '--add' in sys.argv:
        for spec in sys.argv[sys.argv.index('--add') + 1:]:
            p, names = spec.split(':')
            add[p] = names.split(',')
    for i in range(1, 21):
        pid = f'C{i:02d}'
        evs = []
        for d in dirs:
            f = os.path.join(d, pid + '.json')
            if os.path.exists(f):
                ev = json.load(open(f))
                if ev['tier'] == tier:
                    evs.append(ev)
        if not evs:
            continue
        path = os.path.join(HERE, 'monitors', pid.lower() + '.py')
        mon = importlib.import_module(f'monitors.{pid.lower()}')
        src = open(path).read()
        m = re.search(r"^FLOORS = \{.*?\n(?=EXHAUSTIVE)", src, re.S | re.M)
        block = m.group(0)
        # the tier's sub-dict: from "'<tier>': {" to its closing brace
        t0 = block.index(f"'{tier}': {{")
        depth, j = 0, t0 + len(f"'{tier}': ")
        while True:
            if block[j] == '{':
                depth += 1
            elif block[j] == '}':
                depth -= 1
                if depth == 0:
                    break
            j += 1
        sub = block[t0:j + 1]
        new_sub = sub
        for k, need in mon.FLOORS.get(tier, {}).items():
            vals = [observed(e, k) for e in evs]
            vals = [v for v in vals if v is not None]
            if not vals:
                continue
            lo = min(vals)
            if lo < 2 * need:
                target = max(1, lo // 2)
                new_sub, n = re.subn(r"('%s':\s*)%d\b" % (re.escape(k), need), r"\g<1>%d" % target, new_sub, count=1)
                print(f'{pid} [{tier}] {k}: floor {need} -> {target} (min observed {lo})' + ('' if n else '   !! not rewritten'))
        for k in add.get(pid, []):
            if k in mon.FLOORS.get(tier, {}):
                continue
            lo = min(observed(e, k) or 0 for e in evs)
            if lo <= 0:
                print(f'{pid} [{tier}] {k}: not observed in every run - no floor added')
                continue
            new_sub = new_sub.replace(f"'{tier}': {{", f"'{tier}': {{'{k}': {max(1, lo // 3)}, ", 1)
            print(f'{pid} [{tier}] {k}: new floor {max(1, lo // 3)} (min observed {lo})')
        if new_sub != sub:
            src = src.replace(block, block.replace(sub, new_sub, 1), 1)
            open(path, 'w').write(src)


main()
