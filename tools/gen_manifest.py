#!/venv/bin/python
"""Regenerates MANIFEST.json from the table below; a property is claimed iff monitors/<id>.py exists."""
import json
import os

HERE = os.path.dirname(os.path.dirname(os.path.abspath(__file__)))

P = {
 'C01': dict(cat='exploration', ref='4/C01', technique='runtime monitoring: history vs reference-model oracle + icontract invariant on SystemManager',
             text='Seeded random add/remove/step/rejected-op histories and every registration order of small priority multisets are executed on real Models; instrumented systems log each timestep and a reference list (priority at registration, sequence number) decides the order; an icontract invariant re-checks the queue at every public SystemManager call. Held = no divergence on the observed histories (tie pairs, re-registrations and rejected ops are counted and floored).',
             note='Trusts the logging System/Collector subclasses and CPython; priorities are not mutated while registered; finite histories (<=200 ops, <=10 systems, n<=6 for the exhaustive orders).'),
 'C02': dict(cat='exploration', ref='4/C02', technique='runtime monitoring: execution log vs window predicate oracle, twin-run differential',
             text='Every (timestep, system) execution is logged on real Models driven by mixed execute()/execute(n)/execute_systems() scripts and compared with the window predicate start<=t<=end and (t-start)%frequency==0, exactly once; clocks are compared after every call; a twin model stepped one-by-one must produce the identical log; invalid n values are probed at random states; a small (start,end,frequency,t) box is enumerated exhaustively.',
             note='Finite scripts and boxes; systems only log; the clock-warp cases write SystemManager.timestep (a documented public attribute) directly.'),
 'C03': dict(cat='exploration', ref='4/C03', technique='runtime monitoring: listing accessors vs reference model after every operation; mechanism-keyed finding classifier',
             text='Join/leave/re-join/attach/detach histories over several live models (plain and spatial) with all three listing accessors compared to the reference listing after every operation for every component type. Supported histories (attach/detach only while not resident) must match exactly; discrepancies in the resident-attach/detach classes are attributed to the known findings F1/F2/F3/F6 only by facts of the history.',
             note='Known findings are reported, not repaired; component classes use identity equality; PositionComponent excluded as the property states.'),
 'C04': dict(cat='fault_enumeration', ref='4/C04', technique='runtime monitoring: reference dict model + full-state snapshot around injected error paths',
             text='Add/remove/lookup histories over agents with colliding ids in plain, continuous and grid worlds; after every operation all four accessors are compared with an ordered-dict model and every documented error path (duplicate id with same object/impostor, unknown id remove/strict lookup, out-of-bounds placement per axis and side) is injected, each bracketed by a full-state snapshot (residents, every agent\'s components, positions, tags, all listings).',
             note='Error paths are injected at every state the histories reach, not at every state that exists; snapshots read public attributes.'),
 'C05': dict(cat='exploration', ref='4/C05', technique='runtime monitoring: scripted self-modifying systems, per-timestep log vs oracle computed from the script (small-scope exhaustive + random)',
             text='Systems whose execute() removes itself/an earlier/a later system or registers a higher/equal/lower-priority system at a scripted timestep; every (n<=5, priority pattern, actor position, action, target) combination plus random two-actor cases; the per-step log must contain every system registered throughout the step exactly once in priority order, nothing twice, nothing after its removal.',
             note='Whether a system registered mid-step runs in that step is left open (0 or 1 executions accepted).'),
 'C06': dict(cat='exploration', ref='4/C06', technique='runtime monitoring: execution log + full-state snapshot after complete(), random tails of advance requests',
             text='complete() is called by a system at every position of the order (and from outside between steps); the log must show nothing after it, and a random tail of execute/execute(n)/execute_systems(True)/add/remove requests must leave clocks, log and the whole model state untouched, raise ModelCompleteError exactly when asked, and never report running again; the batch drivers are checked the same way.',
             note='The step in which complete() is called still counts (the unit test fixes that); finite tails.'),
 'C07': dict(cat='exploration', ref='4/C07', technique='runtime monitoring: trace-digest differential under ambient perturbation + global-RNG state watch around every framework call',
             text='Scripted models (plain/grid/continuous, births, deaths, filtered picks, shuffles, moves) are run repeatedly with the same seed while global random/numpy.random are reseeded and consumed, other models are stepped in between, in fresh interpreters with different PYTHONHASHSEED and inside batch_run workers; all sha-256 trace digests of one (configuration, seed) must be equal and the global generators\' states must be identical before and after every watched framework call.',
             note='Seeds, hash seeds and process counts are sampled; digest sanity (different seeds differ) is a floor.'),
 'C08': dict(cat='exploration', ref='4/C08', technique='runtime monitoring: positions of all agents vs exact Fraction reference arithmetic after every operation',
             text='add/move/move_to/remove histories in SpaceWorld, DiscreteWorld, LineWorld, GridWorld with unequal extents (0 or >=1), wrap on/off, in-range, boundary and far out-of-range arguments; after every op every agent\'s position is compared with per-axis reference arithmetic (exact on the dyadic class, containment exact and landing within tolerance on wild floats); rejected ops must change nothing.',
             note='Only positive-extent axes are claimed; float landing is exact for multiples of 1/8 below 2^40.'),
 'C09': dict(cat='exploration', ref='4/C09', technique='runtime monitoring: exhaustive small-scope enumeration of grid shapes and coordinates against a counting oracle',
             text='Every DiscreteWorld shape with extents 0..N, every LineWorld and GridWorld up to N: every in-range coordinate must get a distinct id in 0..cells-1, the position table must map it back, get_cell must return that row with its distinguishing cell-component values; every just-outside coordinate must raise IndexError.',
             note='Exhaustive for the stated N only.'),
 'C10': dict(cat='exploration', ref='4/C10', technique='runtime monitoring: exhaustive small-scope neighbourhood queries vs brute-force metric-ball oracle',
             text='Every shape with extents 0..N x every centre x radius 0..diameter+1 x Moore/von Neumann x centre in/out x int/tuple answers x id/tuple/PositionComponent (also fractional) centres x specific/generic entry point, compared with a brute-force filter over the position table in table order.',
             note='Exhaustive for the stated N only; non-wrapping grids as the property states.'),
 'C11': dict(cat='exploration', ref='4/C11', technique='runtime monitoring: shadow copy of every cell column across add/remove histories; self-identifying cell values',
             text='Histories of adding/removing named cell components from callables (recorded calls), lists, numpy arrays, ConstantGenerator and LookupGenerator on line/2-D/3-D/degenerate shapes; values encode their own coordinates; after every op every column, the cell set and get_cell rows are compared with a shadow; sources are mutated afterwards. LookupGenerator with a table of the world\'s dimensionality on low-dimensional worlds is the known finding F4.',
             note='Removing np.copy is observationally invisible under pandas copy-on-write (stated limit).'),
 'C12': dict(cat='exploration', ref='4/C12', technique='runtime monitoring: query answers vs geometric filter oracle on exact dyadic coordinates; mechanism-keyed finding classifier',
             text='Populations with agents exactly on box faces, coincident, moved and removed; query points inside/outside; all leeway combinations incl. negative; continuous and grid worlds. Non-wrapping worlds must match the inclusive box exactly; in wrapping worlds an agent missing only because of the seam is the known finding F5, anything else a violation.',
             note='Exact comparison relies on dyadic coordinates.'),
 'C13': dict(cat='exploration', ref='4/C13', technique='runtime monitoring: query results vs reference filter; bounded-progress reachability of random picks',
             text='Populations with arbitrary component subsets and tags; every template/tag filter compared with the reference filter (identity, order, freshness); random picks must be members (None iff empty) and every member must be drawn within 60*k draws; shuffles must be permutations; no query may change the environment.',
             note='"Every member reachable" is restated as bounded progress (miss probability < 1e-25 per case).'),
 'C14': dict(cat='exploration', ref='4/C14', technique='runtime monitoring: build() vs nested-loop reference product across declaration histories',
             text='Declaration histories (constructor/incremental, add/remove, invalid ops) with scalar/str/list/tuple/range/ndarray values of length 0,1,n with repeats; build() compared with a nested-loop product (order, multiplicity, keys), repeated, checked for independent dicts and unchanged declaration.',
             note='Re-iterable collections only; products capped at 2000 combinations.'),
 'C15': dict(cat='fault_enumeration', ref='4/C15', technique='runtime monitoring: offline exactly-once/no-mix checker over self-identifying records; fault injection at every batch position; process counts 1..16',
             text='batch_run on a fixture model whose collectors stamp (run uuid, collector id, params, timestep, pid) and whose run time is perturbed; the returned records are checked offline for count, uuid uniqueness, no mixing, parameter multiset, timestep prefix up to min(completion, limit), product order for one process, and propagation of an injected failure at every position.',
             note='Each batch runs in a child interpreter under a watchdog; a hang is inconclusive.'),
 'C16': dict(cat='exploration', ref='4/C16', technique='runtime monitoring: grid_search outcome vs exact Fraction recomputation; serial vs multi-process differential',
             text='Score tables (negative, tied, non-monotone, dyadic, beyond sys.maxsize) drive a picklable score function; parameters, records, aggregates and the best combination are recomputed exactly and compared for all 8 modes, repetitions 1..5, optimum first/middle/last, processes 1..16.',
             note='Float aggregates are compared to 1e-12 relative (sums / variances of wild magnitudes to 1e-9); integer scores with an integral aggregate must be exact; best decided on reported scores.'),
 'C17': dict(cat='fault_enumeration', ref='4/C17', technique='runtime monitoring: record stream vs reference; conservation (file text + held records = everything collected) at every step as a stop point; open() audit hook',
             text='Agent collectors under changing populations, None-returning functions, composite functions and windows are compared record by record with deep-copied history; file collectors writing uniquely numbered strings are checked for conservation after every step, flush cadence, number of real opens, and (thorough) the file left by a child killed after any step.',
             note='Default clear_records_on_write=True and append mode for the file clause.'),
 'C18': dict(cat='exploration', ref='4/C18', technique='runtime monitoring: recorded lifecycle events vs grammar instance generated from the description',
             text='Random descriptions (0-4 systems, 0-3 agent groups of size 0-5, any subset of hooks) decoded through a dict Decoder and JsonDecoder on real files; recording fixtures log every lifecycle event with the model identity, registered systems and resident count, compared with the expected sequence; the final model is compared with the description.',
             note='Fixtures live in an importable module; finite descriptions.'),
 'C19': dict(cat='exploration', ref='4/C19', technique='runtime monitoring: reference list model after every op with hostile names; icontract invariant; fresh interpreter per module-level history',
             text='Name sequences mixing identifiers, duplicates, NONE, the library\'s own attribute/method names, dunders, module globals and arbitrary strings on interleaved fresh libraries and on the module-level library in fresh interpreters; after every op ids, name<->id inverses, itemize, len and all library operations are checked; rejected names must change nothing.',
             note='The oracle does not prescribe which hostile names are accepted, only that accepted ones behave and rejected ones change nothing.'),
 'C20': dict(cat='exploration', ref='4/C20', technique='runtime monitoring: per-class reference model over generated class hierarchies, all classes observed after every op',
             text='Hierarchies of Agent subclasses (siblings, multi-level, Environment and world classes) with histories of class-component attach/detach, default-tag changes, instance creation with/without explicit tags and instance components; after every op every class and instance is observed and compared with a per-class model.',
             note='Class state is process-global; each history restores it.'),
}


COMMON = ('; workloads widened over fourteen rounds of independently seeded defects (597 changes) and a systematic first-order mutation of the '
          'library: scale regimes, input representations (numpy scalars, str subclasses, falsy user objects, identifiers with pattern / template '
          'metacharacters or unnormalised unicode, integers beyond the range of a double), alternative call spellings and less-travelled public '
          'entry points (deprecated aliases, defaults, documented attributes read and written directly), a second model / world / library kept '
          'alive, histories that contain failures (exceptions and KeyboardInterrupt-likes from user callbacks, refused calls) with the caller '
          'carrying on, deep-copied / restored objects, re-entrant callbacks and systems registered from inside a timestep, histories that go on '
          'after the model completed, several operations between two looks of the monitor (validated-instead-of-invalidated caches go stale only '
          'then); the cases of every run are spread over interpreter modes (default, python -O, warnings as errors, debug '
          'logging)')


def main():
    checks, na = [], []
    for pid in sorted(P):
        m = P[pid]
        if not os.path.exists(os.path.join(HERE, 'monitors', pid.lower() + '.py')):
            na.append({'property_id': pid, 'reason': 'runtime monitor not built yet in this tree (planned, see DESIGN.md section 4); not claimed until its check exists and is silent on the unchanged tree'})
            continue
        checks.append({
            'property_id': pid,
            'quick_cmd': f'./check {pid} --tier quick',
            'thorough_cmd': f'./check {pid} --tier thorough',
            'evidence_file': f'/verif/evidence/{pid}.json',
            'replay_cmd_template': f'./check {pid} --replay {{path}}',
            'engine': 'ecagent-runtime-monitors',
            'level_claimed': {'category': m['cat'], 'text': m['text'], 'design_ref': 'DESIGN.md section ' + m['ref']},
            'level_note': m['note'],
            'technique': m['technique'] + COMMON,
        })
    man = {
        'version': 1,
        'setup_cmd': './setup.sh',
        'hooks': {'guard': 'ECAGENT_VERIF',
                  'enable': 'no source hooks exist: monitors wrap the real classes from the harness (icontract, sys.monitoring, audit hooks); the tree is imported afresh from $VERIF_REPO (default /repo) by every check',
                  'baseline_off_cmd': 'cd /repo && /venv/bin/python -m pytest -ra -q -p no:cacheprovider --timeout=900 --continue-on-collection-errors',
                  'source_commits': [], 'add_only': True},
        'engines': [{'name': 'ecagent-runtime-monitors', 'path': 'vlib/engine.py', 'serves_properties': [c['property_id'] for c in checks],
                     'kind_free_text': 'runtime monitoring: sharded seeded workloads against the real code, reference-model / offline-log oracles in monitors/cXX.py, icontract invariants, sys.monitoring reach counters, three-valued verdicts'}],
        'checks': checks,
        'notes': 'Exit 0 held / 1 violated (VIOLATION line + replay file) / 2 inconclusive (coverage floor, watchdog, loader mismatch). known_findings.json lists genuine defects recorded instead of repaired (KNOWN-FINDING lines) and the eight repaired ones (fix: commits in /repo). selftest.py runs the checks against realistic breaks (mutants/, seeded/).',
        'not_applicable': na,
    }
    with open(os.path.join(HERE, 'MANIFEST.json'), 'w') as f:
        json.dump(man, f, indent=1)
    print(f'{len(checks)} claimed, {len(na)} not yet')


if __name__ == '__main__':
    main()
