#!/venv/bin/python
"""Prints the markdown tables of DESIGN.md section 10 from evidence/selftest.json and seeded/*/meta.json."""
import glob
import json
import os

import io
import sys

HERE = os.path.dirname(os.path.dirname(os.path.abspath(__file__)))
SPLICE = '--splice' in sys.argv
if SPLICE:
    _out = io.StringIO()
    _real = sys.stdout
    sys.stdout = _out
st = json.load(open(os.path.join(HERE, 'evidence', 'selftest.json')))
by = {}
for r in st['results']:
    by[r['name']] = r
print('### 10.1 Independent seeded changes (sub-agents; `/verif/seeded/<id>/`)\n')
print('| id | what it needs to manifest (from the author\'s notes) | caught by | first divergence reported |')
print('|---|---|---|---|')
for mp in sorted(glob.glob(os.path.join(HERE, 'seeded', '*', 'meta.json'))):
    m = json.load(open(mp))
    notes = open(os.path.join(os.path.dirname(mp), 'notes.md')).read()
    first = ' '.join(notes.split())[:230].replace('|', '/')
    r = by.get('seeded/' + m['id'], {})
    checks = r.get('checks') or {k.split(':')[0]: v for k, v in m['checks'].items()}
    caught = [p for p, c in checks.items() if c['exit'] == 1]
    what = next((c['what'] for c in checks.values() if c['exit'] == 1), '')
    what = what.replace('first violation: ', '').replace('|', '/')[:150]
    if not caught and m.get('out_of_scope'):
        print(f"| {m['id']} | {first} | not claimed (judged outside the property) | {m['out_of_scope'][:150].replace('|', '/')} |")
        continue
    print(f"| {m['id']} | {first} | {', '.join(caught) + ' quick' if caught else '**MISSED**'} | {what} |")
print('\n### 10.2 Own mutants (`mutants/specs.py`)\n')
print('| mutant | property | repository tests | caught | first divergence reported |')
print('|---|---|---|---|---|')
for r in st['results']:
    if r['name'].startswith('seeded/'):
        continue
    what = '; '.join(c['what'] for c in r.get('checks', {}).values() if c['what']).replace('first violation: ', '').replace('|', '/')[:140]
    tp = r.get('tests_pass')
    print(f"| {r['name']} | {r['property'] if isinstance(r['property'], str) else '/'.join(r['property'])} | {'pass' if tp else 'FAIL (reported only)'} | "
          f"{'yes' if r['caught'] else '**no**'} | {what} |")

if SPLICE:
    sys.stdout = _real
    p = os.path.join(HERE, 'DESIGN.md')
    s = open(p).read()
    a = s.index('<!-- TABLES:BEGIN')
    a = s.index('\n', a) + 1
    b = s.index('<!-- TABLES:END -->')
    open(p, 'w').write(s[:a] + _out.getvalue() + s[b:])
    print('spliced', len(_out.getvalue().splitlines()), 'lines into DESIGN.md')
