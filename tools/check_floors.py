#!/venv/bin/python
"""Reports coverage floors that are above half of what the last run (evidence/<id>.json) observed."""
import importlib
import json
import os
import sys

HERE = os.path.dirname(os.path.dirname(os.path.abspath(__file__)))
sys.path.insert(0, HERE)
sys.path.insert(1, os.path.join(HERE, '.deps'))
bad = 0
for i in range(1, 21):
    pid = f'C{i:02d}'
    mon = importlib.import_module(f'monitors.{pid.lower()}')
    ev = json.load(open(os.path.join(HERE, 'evidence', pid + '.json')))
    tier = ev['tier']
    cov = ev['coverage']
    for k, need in mon.FLOORS.get(tier, {}).items():
        if k == 'evaluations':
            have = cov['evaluations']
        elif k == 'distinct_nontrivial':
            have = cov['distinct_nontrivial']
        elif k.startswith('reach:'):
            have = cov['reach'].get(k[6:], 0)
            if k[6:] not in cov['reach'] and len(cov['reach']) >= 40:
                continue
        else:
            have = cov['events'].get(k, 0)
        if have < 2 * need:
            print(f'{pid} [{tier}] floor {k} = {need}, observed {have}  (ratio {have / need:.2f})')
            bad += 1
print('tight floors:', bad)
