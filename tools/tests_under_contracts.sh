#!/bin/bash
# Runs the repository's own tests with the icontract invariants attached; a contract firing there is either too strict or a defect.
here="$(cd "$(dirname "${BASH_SOURCE[0]}")/.." && pwd)"
"$here/setup.sh" || exit 2
repo="${VERIF_REPO:-/repo}"
cd "$repo" && VERIF_CONTRACT_REPORT="$here/evidence/tests_under_contracts.json" PYTHONPATH="$repo:$here:$here/.deps" PYTHONDONTWRITEBYTECODE=1 \
  /venv/bin/python -B -m pytest -q -p no:cacheprovider -p vlib.pytest_contracts tests 2>&1 | tail -15
cat "$here/evidence/tests_under_contracts.json"; echo
