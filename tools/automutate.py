#!/venv/bin/python
"""Systematic first-order mutation of /repo/ECAgent (not LLM-imagined changes): every comparison, arithmetic / boolean operator, integer
and boolean constant, branch condition and simple statement of the library is mutated once (AST level, re-generated with ast.unparse);
each mutant is built in a scratch copy outside /repo and /verif, the repository's own tests are run on it, and on the test-surviving
ones the quick checks are run (the properties anchored at the mutated function first) until one reports a VIOLATION.

  tools/automutate.py --list                      count / list mutation sites
  tools/automutate.py [-j N] [--file Core.py] [--limit K] [--only-survivors evidence/automutate.json]

Writes evidence/automutate.json: per mutant {file, function, line, operator, tests, caught_by | survived}, plus a summary.  Survivors are
NOT automatically blind spots: many first-order mutants are equivalent (e.g. `in d.keys()` -> behaviourally identical) or change behaviour
no property speaks about (log texts, error messages, deprecated aliases' warnings).  They are triaged by hand in DESIGN.md section 12."""
import ast
import concurrent.futures
import copy
import json
import os
import shutil
import subprocess
import sys
import tempfile

HERE = os.path.dirname(os.path.dirname(os.path.abspath(__file__)))
REPO = '/repo'
FILES = ['Core.py', 'Environments.py', 'Batching.py', 'Collectors.py', 'Decode.py', 'Tags.py']
ALL = [f'C{i:02d}' for i in range(1, 21)]
ORDER = [
    ('SystemManager.add_system', ['C01', 'C05']), ('SystemManager.remove_system', ['C01', 'C05']),
    ('SystemManager.execute_systems', ['C02', 'C05', 'C06', 'C01']), ('Model.execute', ['C02', 'C06']), ('Model.', ['C06', 'C07', 'C02']),
    ('System.', ['C02', 'C01', 'C05']), ('register_component', ['C03']), ('get_components', ['C03']),
    ('SystemManager.__getitem__', ['C03', 'C01']), ('SystemManager.', ['C01', 'C02', 'C03']),
    ('Environment.add_agent', ['C04', 'C03']), ('Environment.remove_agent', ['C04', 'C03']), ('Environment.get_agents', ['C13']),
    ('Environment.get_random_agent', ['C13', 'C07']), ('Environment.shuffle', ['C13', 'C07']), ('Environment.', ['C04', 'C13']),
    ('_MetaAgent.', ['C20']), ('Agent.', ['C20', 'C13', 'C03', 'C04']), ('Component', ['C03']),
    ('discrete_grid_pos_to_id', ['C09', 'C10']), ('PositionComponent', ['C08', 'C12', 'C10']), ('SpaceWorld.get_agents_at', ['C12']),
    ('SpaceWorld.move', ['C08']), ('SpaceWorld.', ['C08', 'C04', 'C12']), ('DiscreteWorld.get_cell', ['C09']),
    ('cell_component', ['C11', 'C09']), ('Generator', ['C11']), ('neighbours', ['C10']), ('_get_cell_pos_as_tuple', ['C10']),
    ('DiscreteWorld.', ['C09', 'C11', 'C10', 'C08']), ('LineWorld', ['C09', 'C10', 'C08']), ('GridWorld', ['C09', 'C10', 'C08']),
    ('ParameterList', ['C14', 'C15', 'C16']), ('_run_model_for_batch', ['C15', 'C06']), ('batch_run', ['C15', 'C07']),
    ('_run_model_for_search', ['C16', 'C06']), ('grid_search', ['C16']), ('_build_model', ['C15', 'C16', 'C07']), ('ScoreMode', ['C16']),
    ('Collector', ['C17', 'C01']), ('Decoder', ['C18']), ('TagLibrary', ['C19']), ('add_tag', ['C19']), ('__getattr__', ['C19']),
    ('itemize', ['C19']), ('get_tag_name', ['C19'])]
BY_FILE = {'Core.py': ['C01', 'C02', 'C03', 'C04', 'C05', 'C06', 'C13', 'C20', 'C07'], 'Environments.py': ['C08', 'C09', 'C10', 'C11', 'C12', 'C04'],
           'Batching.py': ['C14', 'C15', 'C16', 'C06', 'C07'], 'Collectors.py': ['C17', 'C01', 'C02'], 'Decode.py': ['C18'], 'Tags.py': ['C19', 'C20']}

CMP = {ast.Lt: [ast.LtE, ast.GtE], ast.LtE: [ast.Lt, ast.Gt], ast.Gt: [ast.GtE, ast.LtE], ast.GtE: [ast.Gt, ast.Lt], ast.Eq: [ast.NotEq],
       ast.NotEq: [ast.Eq], ast.Is: [ast.IsNot], ast.IsNot: [ast.Is], ast.In: [ast.NotIn], ast.NotIn: [ast.In]}
BIN = {ast.Add: [ast.Sub], ast.Sub: [ast.Add], ast.Mult: [ast.Add], ast.Mod: [ast.Mult], ast.FloorDiv: [ast.Mod], ast.Div: [ast.Mult],
       ast.Pow: [ast.Mult]}


def annotate(tree):
    """parent links, enclosing qualified name, and a flag for nodes that must not be mutated (annotations, decorators, docstrings,
    logger calls, __slots__, raise-message construction)."""
    for node in ast.walk(tree):
        for field, value in ast.iter_fields(node):
            kids = value if isinstance(value, list) else [value]
            for k in kids:
                if isinstance(k, ast.AST):
                    k._parent, k._field = node, field
    tree._parent = None

    def qual(n):
        names = []
        while n is not None:
            if isinstance(n, (ast.FunctionDef, ast.ClassDef, ast.AsyncFunctionDef)):
                names.append(n.name)
            n = getattr(n, '_parent', None)
        return '.'.join(reversed(names))

    def skipped(n):
        cur = n
        while getattr(cur, '_parent', None) is not None:
            par, fld = cur._parent, cur._field
            if fld in ('annotation', 'returns', 'decorator_list', 'type_comment'):
                return True
            if isinstance(par, ast.Raise):
                return True           # the text / arguments of an error message
            if isinstance(par, ast.Assign) and any(isinstance(t, ast.Name) and t.id in ('__slots__', '__all__') for t in par.targets):
                return True
            if isinstance(cur, ast.Call) and 'logger' in ast.unparse(cur.func):
                return True
            if isinstance(cur, ast.Call) and ast.unparse(cur.func).endswith(('deprecated', 'warn')):
                return True
            cur = par
        return False

    for node in ast.walk(tree):
        node._qual = qual(node)
        node._skip = skipped(node)


def sites(tree):
    """Yields (node_index, operator_name, variant_index, description)."""
    nodes = list(ast.walk(tree))
    for i, n in enumerate(nodes):
        if n._skip or not hasattr(n, 'lineno') and not isinstance(n, (ast.cmpop, ast.operator)):
            continue
        if isinstance(n, ast.Compare):
            for j, op in enumerate(n.ops):
                for v, alt in enumerate(CMP.get(type(op), [])):
                    yield i, 'compare', (j, v), f'{type(op).__name__}->{alt.__name__}'
        elif isinstance(n, ast.BinOp) and type(n.op) in BIN:
            if isinstance(n.op, ast.Mod) and isinstance(n.left, ast.Constant) and isinstance(n.left.value, str):
                continue
            if isinstance(n.op, ast.Add) and any(isinstance(s, (ast.JoinedStr,)) or (isinstance(s, ast.Constant) and isinstance(s.value, str)) for s in (n.left, n.right)):
                continue
            for v, alt in enumerate(BIN[type(n.op)]):
                yield i, 'binop', v, f'{type(n.op).__name__}->{alt.__name__}'
        elif isinstance(n, ast.AugAssign) and type(n.op) in BIN:
            yield i, 'augop', 0, f'{type(n.op).__name__}->{BIN[type(n.op)][0].__name__}'
        elif isinstance(n, ast.BoolOp):
            yield i, 'boolop', 0, f'{type(n.op).__name__}->{"Or" if isinstance(n.op, ast.And) else "And"}'
        elif isinstance(n, ast.UnaryOp) and isinstance(n.op, ast.Not):
            yield i, 'dropnot', 0, 'not x -> x'
        elif isinstance(n, ast.UnaryOp) and isinstance(n.op, ast.USub) and not isinstance(n.operand, ast.Constant):
            yield i, 'dropneg', 0, '-x -> x'
        elif isinstance(n, ast.Constant) and isinstance(n.value, bool):
            yield i, 'const', 0, f'{n.value}->{not n.value}'
        elif isinstance(n, ast.Constant) and isinstance(n.value, int) and not isinstance(n.value, bool):
            par = n._parent
            if isinstance(par, ast.UnaryOp) and isinstance(par.op, ast.USub):
                pass
            yield i, 'const', 0, f'{n.value}->{n.value + 1}'
            if n.value not in (0,):
                yield i, 'const', 1, f'{n.value}->{n.value - 1}'
        elif isinstance(n, (ast.If, ast.While, ast.IfExp)):
            yield i, 'negcond', 0, 'cond -> not cond'
        elif isinstance(n, ast.Expr) and isinstance(n.value, ast.Call):
            yield i, 'delstmt', 0, 'call statement -> pass'
        elif isinstance(n, (ast.Assign, ast.AugAssign, ast.Delete)) and n._qual and not (isinstance(n, ast.Assign) and n._skip):
            if isinstance(n._parent, (ast.ClassDef, ast.Module)):
                continue
            yield i, 'delstmt', 0, f'{type(n).__name__} -> pass'
        elif isinstance(n, ast.Raise):
            yield i, 'delstmt', 0, 'raise -> pass'
        elif isinstance(n, ast.Return) and n.value is not None and not (isinstance(n.value, ast.Constant) and n.value.value is None):
            yield i, 'retnone', 0, 'return x -> return None'
        elif isinstance(n, ast.Break):
            yield i, 'brkcont', 0, 'break -> continue'
        elif isinstance(n, ast.Continue):
            yield i, 'brkcont', 0, 'continue -> break'


def mutate(src, idx, op, variant):
    tree = ast.parse(src)
    annotate(tree)
    n = list(ast.walk(tree))[idx]
    info = {'function': n._qual, 'line': getattr(n, 'lineno', None), 'before': ast.unparse(n)[:140] if not isinstance(n, (ast.If, ast.While)) else ast.unparse(n.test)[:140]}

    def replace(old, new):
        par, fld = old._parent, old._field
        val = getattr(par, fld)
        if isinstance(val, list):
            val[val.index(old)] = new
        else:
            setattr(par, fld, new)

    if op == 'compare':
        j, v = variant
        n.ops[j] = CMP[type(n.ops[j])][v]()
    elif op in ('binop', 'augop'):
        n.op = BIN[type(n.op)][variant if op == 'binop' else 0]()
    elif op == 'boolop':
        n.op = ast.Or() if isinstance(n.op, ast.And) else ast.And()
    elif op in ('dropnot', 'dropneg'):
        replace(n, n.operand)
    elif op == 'const':
        if isinstance(n.value, bool):
            n.value = not n.value
        else:
            n.value = n.value + (1 if variant == 0 else -1)
    elif op == 'negcond':
        n.test = ast.UnaryOp(op=ast.Not(), operand=n.test)
    elif op == 'delstmt':
        replace(n, ast.Pass())
    elif op == 'retnone':
        n.value = ast.Constant(value=None)
    elif op == 'brkcont':
        replace(n, ast.Continue() if isinstance(n, ast.Break) else ast.Break())
    ast.fix_missing_locations(tree)
    out = ast.unparse(tree)
    return out, info


def all_mutants(files):
    out = []
    for f in files:
        src = open(os.path.join(REPO, 'ECAgent', f)).read()
        tree = ast.parse(src)
        annotate(tree)
        for idx, op, variant, desc in sites(tree):
            n = list(ast.walk(tree))[idx] if False else None
            out.append({'file': f, 'idx': idx, 'op': op, 'variant': variant, 'desc': desc})
    return out


def priority(file, function):
    first = []
    for key, props in ORDER:
        if key in (function or ''):
            first += [p for p in props if p not in first]
    first += [p for p in BY_FILE[file] if p not in first]
    return first + [p for p in ALL if p not in first]


def run_one(m, max_checks):
    src = open(os.path.join(REPO, 'ECAgent', m['file'])).read()
    try:
        new_src, info = mutate(src, m['idx'], m['op'], m['variant'])
    except Exception as e:  # noqa
        return dict(m, error=f'mutation failed: {type(e).__name__}: {e}')
    res = dict(m, **info)
    res['variant'] = list(m['variant']) if isinstance(m['variant'], tuple) else m['variant']
    if ast.dump(ast.parse(new_src)) == ast.dump(ast.parse(src)):
        return dict(res, error='no-op')
    root = tempfile.mkdtemp(prefix='ecagent-am-', dir='/tmp')
    try:
        for d in ('ECAgent', 'tests', 'DummyScripts'):
            shutil.copytree(os.path.join(REPO, d), os.path.join(root, d), ignore=shutil.ignore_patterns('__pycache__'))
        with open(os.path.join(root, 'ECAgent', m['file']), 'w') as f:
            f.write(new_src)
        env = dict(os.environ, PYTHONPATH=root, PYTHONDONTWRITEBYTECODE='1')
        try:
            t = subprocess.run(['/venv/bin/python', '-B', '-m', 'pytest', '-x', '-q', '-p', 'no:cacheprovider', 'tests'], cwd=root, capture_output=True,
                               text=True, timeout=180, env=env)
            res['tests'] = 'pass' if t.returncode == 0 else 'fail'
        except subprocess.TimeoutExpired:
            res['tests'] = 'timeout'
        if res['tests'] != 'pass':
            return res
        res['checks_run'], res['inconclusive'] = [], []
        for p in priority(m['file'], info['function'])[:max_checks]:
            try:
                c = subprocess.run([os.path.join(HERE, 'check'), p, '--tier', 'quick'], capture_output=True, text=True, timeout=900,
                                   env=dict(os.environ, VERIF_REPO=root, VERIF_EVIDENCE_DIR=os.path.join(root, '.evidence')))
                rc, out = c.returncode, c.stdout
            except subprocess.TimeoutExpired:
                rc, out = 2, 'INCONCLUSIVE check timed out'
            res['checks_run'].append(p)
            if rc == 1:
                res['caught_by'] = p
                res['what'] = next((ln.strip() for ln in out.splitlines() if 'first violation' in ln), '')[:200]
                return res
            if rc != 0:
                res['inconclusive'].append(p)
        res['survived'] = True
        return res
    finally:
        shutil.rmtree(root, ignore_errors=True)


def main():
    files = FILES
    jobs, limit, max_checks = 6, None, 20
    argv = sys.argv[1:]
    for i, a in enumerate(argv):
        if a == '--file':
            files = [argv[i + 1]]
        elif a == '-j':
            jobs = int(argv[i + 1])
        elif a == '--limit':
            limit = int(argv[i + 1])
        elif a == '--max-checks':
            max_checks = int(argv[i + 1])
    muts = all_mutants(files)
    if '--list' in argv:
        from collections import Counter
        print(Counter((m['file'], m['op']) for m in muts))
        print(len(muts), 'mutation sites')
        return 0
    if '--only-survivors' in argv:
        prev = json.load(open(argv[argv.index('--only-survivors') + 1]))
        keep = {(r['file'], r['idx'], r['op'], json.dumps(r['variant'])) for r in prev['results'] if r.get('survived') or r.get('inconclusive')}
        muts = [m for m in muts if (m['file'], m['idx'], m['op'], json.dumps(list(m['variant']) if isinstance(m['variant'], tuple) else m['variant'])) in keep]
    if limit:
        import random
        random.Random(0).shuffle(muts)
        muts = muts[:limit]
    results = []
    with concurrent.futures.ThreadPoolExecutor(max_workers=jobs) as ex:
        for k, r in enumerate(ex.map(lambda m: run_one(m, max_checks), muts)):
            results.append(r)
            tag = r.get('error') or ('tests-' + r['tests'] if r.get('tests') != 'pass' else ('CAUGHT ' + r['caught_by'] if r.get('caught_by') else 'SURVIVED'))
            print(f"[{k + 1}/{len(muts)}] {r['file']}:{r.get('line')} {r.get('function')} {r['desc']}  {tag}  {r.get('what', '')[:100]}", flush=True)
    surv = [r for r in results if r.get('tests') == 'pass']
    summary = {'mutation_sites': len(results), 'no_op_or_failed': sum(1 for r in results if r.get('error')),
               'killed_by_repository_tests': sum(1 for r in results if r.get('tests') in ('fail', 'timeout')),
               'test_surviving': len(surv), 'caught_by_checks': sum(1 for r in surv if r.get('caught_by')),
               'survived_all_checks': sum(1 for r in surv if r.get('survived')),
               'caught_by_property': {p: sum(1 for r in surv if r.get('caught_by') == p) for p in ALL}}
    out = os.path.join(HERE, 'evidence', 'automutate.json' if not limit and files == FILES and '--only-survivors' not in argv else 'automutate.partial.json')
    with open(out, 'w') as f:
        json.dump({'summary': summary, 'results': results}, f, indent=1)
    print(json.dumps(summary, indent=1))
    return 0


if __name__ == '__main__':
    sys.exit(main())
