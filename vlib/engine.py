"""Common engine for the ECAgent runtime monitors.

Parent mode  : plan shards -> one subprocess per shard (subprocess.run + timeout, never a Pool) -> merge
               -> floors -> evidence -> verdict (held / violated / inconclusive; never folded together).
Shard mode   : load the tree under test, install reach counters, call monitor.run(ctx) and dump ctx as JSON.
Replay mode  : re-execute exactly one recorded case in-process.

Nothing here knows anything about ECAgent's semantics; the oracles live in monitors/cXX.py.
"""
import hashlib
import importlib
import json
import os
import random
import subprocess
import sys
import time
import traceback

HERE = os.path.dirname(os.path.dirname(os.path.abspath(__file__)))
EXIT_HELD, EXIT_VIOLATED, EXIT_INCONCLUSIVE = 0, 1, 2
MAX_VIOLATIONS_PER_SHARD = 3
MAX_SAMPLES = 4


def repo_root():
    return os.path.abspath(os.environ.get('VERIF_REPO', '/repo'))


def load_tree():
    """Puts the tree under test first on sys.path and proves ECAgent really came from there."""
    root = repo_root()
    if sys.path[0] != root:
        sys.path.insert(0, root)
    import ECAgent  # noqa
    import ECAgent.Core as core
    got = os.path.dirname(os.path.abspath(core.__file__))
    want = os.path.join(root, 'ECAgent')
    if os.path.realpath(got) != os.path.realpath(want):
        raise Inconclusive(f'ECAgent imported from {got}, expected {want}')
    return root


def tree_identity():
    root = repo_root()
    h = hashlib.sha256()
    d = os.path.join(root, 'ECAgent')
    for fn in sorted(os.listdir(d)):
        if fn.endswith('.py'):
            with open(os.path.join(d, fn), 'rb') as f:
                h.update(fn.encode() + b'\0' + f.read() + b'\0')
    head = ''
    try:
        head = subprocess.run(['git', '-C', root, 'rev-parse', 'HEAD'], capture_output=True, text=True,
                              timeout=20).stdout.strip()
        dirty = subprocess.run(['git', '-C', root, 'status', '--porcelain', '--', 'ECAgent'], capture_output=True,
                               text=True, timeout=20).stdout.strip()
    except Exception:
        dirty = ''
    return {'root': root, 'git_head': head, 'dirty': bool(dirty), 'ecagent_sha256': h.hexdigest()}


class Inconclusive(Exception):
    pass


class CaseViolation(Exception):
    """Raised by an oracle; carries a JSON-able description of the divergence."""

    def __init__(self, what, **detail):
        super().__init__(what)
        self.what = what
        self.detail = detail


def jsonable(o, depth=0):
    if depth > 8:
        return repr(o)[:200]
    if isinstance(o, (str, int, bool)) or o is None:
        return o
    if isinstance(o, float):
        return o if o == o and abs(o) != float('inf') else repr(o)
    if isinstance(o, dict):
        return {str(k): jsonable(v, depth + 1) for k, v in list(o.items())[:200]}
    if isinstance(o, (list, tuple, set, frozenset)):
        return [jsonable(v, depth + 1) for v in list(o)[:200]]
    return repr(o)[:300]


def sig(obj):
    """Stable 64-bit signature of an abstract case / state (independent of PYTHONHASHSEED)."""
    return hashlib.blake2b(repr(obj).encode(), digest_size=8).hexdigest()


# ---------------------------------------------------------------------------------------------------------------
# environment modes: the same cases are run in differently configured interpreters (a shard = one interpreter)
# ---------------------------------------------------------------------------------------------------------------
MODE_PLAN = ['debuglog', 'optimised', 'default', 'warnings']        # shard s of a run with seed k gets MODE_PLAN[(s + k) % 4]
MODE_FLAGS = {'default': [], 'debuglog': [], 'optimised': ['-O'],
              # warnings that code is expected to heed are raised as errors (not the import-time noise of third-party packages)
              'warnings': ['-Werror::DeprecationWarning', '-Werror::UserWarning', '-Werror::RuntimeWarning', '-Werror::FutureWarning',
                           '-Werror::SyntaxWarning']}


def mode_of_shard(shard, seed):
    forced = os.environ.get('VERIF_FORCE_MODE')
    return forced if forced in MODE_FLAGS else MODE_PLAN[(shard + seed) % len(MODE_PLAN)]


def current_mode():
    return os.environ.get('VERIF_MODE', 'default')


def apply_mode_in_process():
    """Called at the start of a shard / replay process: what cannot be set on the command line."""
    if current_mode() == 'debuglog':
        import logging
        root = logging.getLogger()
        root.setLevel(logging.DEBUG)          # an application that runs with debug logging switched on (records go nowhere)
        root.addHandler(logging.NullHandler())


def child_python():
    """Interpreter command for child processes spawned by monitors: same flags as the current shard."""
    return [sys.executable, '-B'] + MODE_FLAGS.get(current_mode(), [])


class Ctx:
    """What a monitor writes its observations into (one per shard)."""

    def __init__(self, prop, tier, seed, shard, nshards):
        self.prop, self.tier, self.seed, self.shard, self.nshards = prop, tier, seed, shard, nshards
        self.evaluations = 0
        self.counters = {}
        self.nontrivial = set()
        self.states = set()
        self.samples = []
        self.violations = []
        self.findings = {}      # key -> {'n':..., 'what':..., 'example':...}
        self.notes = []
        self.cases_run = 0
        self.replaying = False
        self.mode = current_mode()

    # --- counting -----------------------------------------------------------------------------------------
    def ev(self, n=1):
        self.evaluations += n

    def count(self, key, n=1):
        self.counters[key] = self.counters.get(key, 0) + n

    def distinct(self, signature):
        self.nontrivial.add(sig(signature))

    def state(self, signature):
        self.states.add(sig(signature))

    def sample(self, obj, force=False):
        if len(self.samples) < MAX_SAMPLES or force:
            self.samples.append(jsonable(obj))

    def rng(self, *parts):
        return random.Random(':'.join(str(p) for p in (self.seed, self.prop) + parts))

    def mine(self, index):
        return index % self.nshards == self.shard

    # --- verdict material -----------------------------------------------------------------------------------
    def violation(self, case, what, **detail):
        self.violations.append({'case': jsonable(case), 'what': what, 'detail': jsonable(detail)})

    def finding(self, key, what, example=None):
        f = self.findings.setdefault(key, {'n': 0, 'what': what, 'example': jsonable(example)})
        f['n'] += 1

    def full(self):
        return len(self.violations) >= MAX_VIOLATIONS_PER_SHARD

    def run_case(self, case, fn, *args):
        """Runs one case; an oracle divergence (CaseViolation) or any unexpected exception is a violation
        attributed to exactly this case, so that --replay can re-execute it alone."""
        self.cases_run += 1
        self.count('cases_in_mode_' + self.mode)
        try:
            fn(self, case, *args)
        except CaseViolation as v:
            self.violation(case, v.what, interpreter_mode=self.mode, **v.detail)
        except Inconclusive:
            raise
        except Exception as e:  # noqa - the oracle predicted a normal return
            self.violation(case, f'unexpected {type(e).__name__}: {e}', interpreter_mode=self.mode, traceback=traceback.format_exc()[-3000:])

    def dump(self):
        return {'evaluations': self.evaluations, 'counters': self.counters, 'nontrivial': sorted(self.nontrivial),
                'states': sorted(self.states), 'samples': self.samples, 'violations': self.violations,
                'findings': self.findings, 'notes': self.notes, 'cases_run': self.cases_run}


# ---------------------------------------------------------------------------------------------------------------
# reach counters (sys.monitoring, PY_START on code objects that live under the tree being checked)
# ---------------------------------------------------------------------------------------------------------------
class Reach:
    def __init__(self, root):
        self.prefix = os.path.join(os.path.realpath(root), 'ECAgent') + os.sep
        self.counts = {}
        self.on = False

    def start(self):
        mon = getattr(sys, 'monitoring', None)
        if mon is None:
            return
        self.tool = mon.PROFILER_ID
        try:
            mon.use_tool_id(self.tool, 'verif-reach')
        except ValueError:
            return
        prefix, counts, disable = self.prefix, self.counts, mon.DISABLE
        names = {}

        def on_start(code, offset):
            key = names.get(code)
            if key is None:
                fn = os.path.realpath(code.co_filename)
                if not fn.startswith(prefix):
                    names[code] = False
                    return disable
                key = names[code] = os.path.basename(fn)[:-3] + '.' + code.co_qualname
            elif key is False:
                return disable
            counts[key] = counts.get(key, 0) + 1

        mon.register_callback(self.tool, mon.events.PY_START, on_start)
        mon.set_events(self.tool, mon.events.PY_START)
        self.on = True

    def stop(self):
        if self.on:
            mon = sys.monitoring
            mon.set_events(self.tool, 0)
            mon.register_callback(self.tool, mon.events.PY_START, None)
            mon.free_tool_id(self.tool)
            self.on = False


# ---------------------------------------------------------------------------------------------------------------
# known findings
# ---------------------------------------------------------------------------------------------------------------
def load_known(prop):
    with open(os.path.join(HERE, 'known_findings.json')) as f:
        data = json.load(f)
    return {e['key']: e for e in data['findings'] if e['property'] == prop and e.get('status') == 'known'}


# ---------------------------------------------------------------------------------------------------------------
# shard / replay entry
# ---------------------------------------------------------------------------------------------------------------
def get_monitor(prop):
    return importlib.import_module('monitors.' + prop.lower())


def shard_main(prop, tier, seed, shard, nshards, out):
    t0 = time.time()
    res = {'ok': False}
    try:
        apply_mode_in_process()
        root = load_tree()
        mon = get_monitor(prop)
        ctx = Ctx(prop, tier, seed, shard, nshards)
        reach = Reach(root)
        reach.start()
        try:
            mon.run(ctx)
        finally:
            reach.stop()
        res = ctx.dump()
        res['reach'] = reach.counts
        res['ok'] = True
    except Inconclusive as e:
        res = {'ok': False, 'inconclusive': str(e)}
    except BaseException as e:  # harness failure -> inconclusive, never "held"
        res = {'ok': False, 'inconclusive': f'harness error {type(e).__name__}: {e}',
               'traceback': traceback.format_exc()[-4000:]}
    res['wall_s'] = time.time() - t0
    with open(out, 'w') as f:
        json.dump(res, f)


def replay_main(prop, path):
    with open(path) as f:
        rec = json.load(f)
    if rec.get('property') != prop:
        print(f'replay file is for {rec.get("property")}, not {prop}')
        return EXIT_INCONCLUSIVE
    want = rec.get('mode', 'default')
    if want != current_mode() and want in MODE_FLAGS:
        # the case was observed in a differently configured interpreter: replay it in the same configuration
        cmd = [sys.executable, '-B'] + MODE_FLAGS[want] + [os.path.join(HERE, 'vlib', 'main.py'), prop, '--replay', path]
        return subprocess.run(cmd, env=dict(os.environ, VERIF_MODE=want, PYTHONHASHSEED='0'), cwd=HERE).returncode
    apply_mode_in_process()
    load_tree()
    mon = get_monitor(prop)
    ctx = Ctx(prop, rec.get('tier', 'quick'), int(rec.get('seed', 0)), 0, 1)
    ctx.replaying = True
    mon.replay(ctx, rec['case'])
    known = load_known(prop)
    for k, f in ctx.findings.items():
        if k in known:
            print(f'KNOWN-FINDING: property={prop} {k}: {f["what"]} ({f["n"]} occurrences)')
        else:
            ctx.violation(rec['case'], f'unlisted finding {k}: {f["what"]}')
    if ctx.violations:
        v = ctx.violations[0]
        print(json.dumps(v, indent=1)[:6000])
        print(f'VIOLATION property={prop} replay={path}')
        return EXIT_VIOLATED
    print(f'replayed case held ({ctx.evaluations} oracle evaluations)')
    return EXIT_HELD


# ---------------------------------------------------------------------------------------------------------------
# parent
# ---------------------------------------------------------------------------------------------------------------
def parent_main(prop, tier, seed):
    t0 = time.time()
    mon = get_monitor(prop)
    nshards = mon.SHARDS.get(tier, 1)
    nshards = max(1, min(nshards, os.cpu_count() or 1))
    timeout = mon.TIMEOUT.get(tier, 600) if hasattr(mon, 'TIMEOUT') else (300 if tier == 'quick' else 3000)
    # evidence/<id>.json is reserved for runs against /repo itself; runs against another tree (selftest, controls, experiments) go elsewhere
    edir = os.environ.get('VERIF_EVIDENCE_DIR') or (os.path.join(HERE, 'evidence') if repo_root() == '/repo'
                                                    else os.path.join(HERE, 'evidence', '.other-tree'))
    os.makedirs(edir, exist_ok=True)
    tmpdir = os.path.join(edir, f'.tmp-{prop}-{os.getpid()}')
    os.makedirs(tmpdir, exist_ok=True)
    env = dict(os.environ)
    env['PYTHONHASHSEED'] = '0'
    env['PYTHONDONTWRITEBYTECODE'] = '1'
    procs = []
    for s in range(nshards):
        out = os.path.join(tmpdir, f'shard{s}.json')
        mode = mode_of_shard(s, seed)
        cmd = [sys.executable, '-B'] + MODE_FLAGS[mode] + [os.path.join(HERE, 'vlib', 'main.py'), prop, '--tier', tier,
                                                           '--_shard', f'{s}/{nshards}', '--_out', out]
        env_s = dict(env, VERIF_SEED=str(seed), VERIF_MODE=mode)
        procs.append((s, out, subprocess.Popen(cmd, env=env_s, cwd=HERE)))
    merged = {'evaluations': 0, 'counters': {}, 'nontrivial': set(), 'states': set(), 'samples': [],
              'violations': [], 'findings': {}, 'reach': {}, 'notes': [], 'cases_run': 0}
    inconclusive = []
    deadline = t0 + timeout
    for s, out, p in procs:
        try:
            p.wait(timeout=max(1, deadline - time.time()))
        except subprocess.TimeoutExpired:
            p.kill()
            p.wait()
            inconclusive.append(f'shard {s} hit the {timeout}s watchdog')
            continue
        if not os.path.exists(out):
            inconclusive.append(f'shard {s} died (exit {p.returncode}) without a result')
            continue
        with open(out) as f:
            r = json.load(f)
        if not r.get('ok'):
            inconclusive.append(f'shard {s}: {r.get("inconclusive")}')
            if r.get('traceback'):
                sys.stderr.write(r['traceback'] + '\n')
            continue
        merged['evaluations'] += r['evaluations']
        merged['cases_run'] += r['cases_run']
        for k, v in r['counters'].items():
            merged['counters'][k] = merged['counters'].get(k, 0) + v
        for k, v in r['reach'].items():
            merged['reach'][k] = merged['reach'].get(k, 0) + v
        merged['nontrivial'].update(r['nontrivial'])
        merged['states'].update(r['states'])
        merged['samples'].extend(r['samples'])
        merged['violations'].extend(r['violations'])
        merged['notes'].extend(r['notes'])
        for k, v in r['findings'].items():
            f = merged['findings'].setdefault(k, {'n': 0, 'what': v['what'], 'example': v['example']})
            f['n'] += v['n']
    for fn in os.listdir(tmpdir):
        os.unlink(os.path.join(tmpdir, fn))
    os.rmdir(tmpdir)

    # known findings: listed mechanisms are reported, anything else is a violation
    known = load_known(prop)
    known_lines = []
    for k, f in sorted(merged['findings'].items()):
        if k in known:
            known_lines.append(f'KNOWN-FINDING: property={prop} {k}: {f["what"]} ({f["n"]} occurrences)')
        else:
            merged['violations'].append({'case': f['example'], 'what': f'unlisted finding {k}: {f["what"]}',
                                         'detail': {}})

    # floors (coverage the monitor must have observed, else inconclusive)
    floors = getattr(mon, 'FLOORS', {}).get(tier, {})
    if not merged['violations']:
        for k, need in floors.items():
            if k == 'evaluations':
                have = merged['evaluations']
            elif k == 'distinct_nontrivial':
                have = len(merged['nontrivial'])
            elif k.startswith('reach:'):
                have = merged['reach'].get(k[6:], 0)
            else:
                have = merged['counters'].get(k, 0)
            if have < need:
                inconclusive.append(f'coverage floor not met: {k} = {have} < {need}')

    wall = time.time() - t0
    replay_path = None
    if merged['violations']:
        v = merged['violations'][0]
        rdir = os.path.join(HERE, 'replays') if not os.environ.get('VERIF_EVIDENCE_DIR') else edir
        os.makedirs(rdir, exist_ok=True)
        replay_path = os.path.join(rdir, f'{prop}-{tier}-seed{seed}-{sig(v["case"])}.json')
        with open(replay_path, 'w') as f:
            json.dump({'property': prop, 'tier': tier, 'seed': seed, 'case': v['case'], 'what': v['what'],
                       'mode': (v.get('detail') or {}).get('interpreter_mode', 'default'),
                       'detail': v['detail'], 'tree': tree_identity()}, f, indent=1)

    cov = {
        'evaluations': merged['evaluations'],
        'distinct_nontrivial': len(merged['nontrivial']),
        'rule': mon.RULE,
        'samples': merged['samples'][:MAX_SAMPLES + 2],
        'cases_run': merged['cases_run'],
        'events': dict(sorted(merged['counters'].items())),
        'states_seen': len(merged['states']),
        'reach': dict(sorted(merged['reach'].items(), key=lambda kv: -kv[1])[:40]),
        'known_findings': {k: f['n'] for k, f in merged['findings'].items()},
        'shards': nshards,
        'tree': tree_identity(),
        'verdict': 'violated' if merged['violations'] else ('inconclusive' if inconclusive else 'held'),
        'inconclusive_reasons': inconclusive,
    }
    if getattr(mon, 'EXHAUSTIVE', {}).get(tier):
        cov['exhaustive'] = True
        cov['exhaustive_scope'] = mon.EXHAUSTIVE[tier]
    if merged['violations']:
        cov['first_violation'] = merged['violations'][0]
    if merged['notes']:
        cov['notes'] = merged['notes'][:20]
    evidence = {'property_id': prop, 'tier': tier, 'seed': seed, 'level': mon.LEVEL, 'coverage': cov,
                'assumptions': mon.ASSUMPTIONS, 'wall_s': round(wall, 2), 'violations': len(merged['violations'])}
    epath = os.path.join(edir, f'{prop}.json')
    with open(epath + '.tmp', 'w') as f:
        json.dump(evidence, f, indent=1, sort_keys=False)
    os.replace(epath + '.tmp', epath)

    print(f'[{prop}] tier={tier} seed={seed} shards={nshards} cases={merged["cases_run"]} '
          f'evaluations={merged["evaluations"]} distinct_nontrivial={len(merged["nontrivial"])} '
          f'states={len(merged["states"])} wall={wall:.1f}s')
    ev = merged['counters']
    print('  observed: ' + ', '.join(f'{k}={v}' for k, v in sorted(ev.items())[:60]))
    for line in known_lines:
        print(line)
    if merged['violations']:
        v = merged['violations'][0]
        print('  first violation: ' + v['what'])
        print('  ' + json.dumps(v['case'])[:1500])
        print(f'VIOLATION property={prop} replay={replay_path}')
        return EXIT_VIOLATED
    if inconclusive:
        for r in inconclusive:
            print(f'INCONCLUSIVE property={prop} {r}')
        return EXIT_INCONCLUSIVE
    print(f'HELD property={prop} on everything observed')
    return EXIT_HELD
