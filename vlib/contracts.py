"""icontract invariants / post-conditions attached from the harness to the *real* ECAgent classes (second, independent
monitor: evaluated at the exit of every public call the workload makes). They look at documented public attributes and
skip (return True, counted as 'skipped') if a refactoring removed them, so they can never raise a false alarm on a
tree that merely renamed internals. Each attachment is idempotent per process."""
import icontract

EVALS = {}          # name -> number of evaluations
SKIPPED = {}


class ContractBroken(Exception):
    pass


def _bump(name):
    EVALS[name] = EVALS.get(name, 0) + 1


def _skip(name):
    SKIPPED[name] = SKIPPED.get(name, 0) + 1
    return True


# ---- SystemManager: queue is a permutation of the registry, priorities non-increasing ------------------------------
def sm_queue_consistent(self):
    q = getattr(self, 'execution_queue', None)
    reg = getattr(self, 'systems', None)
    if not isinstance(q, list) or not isinstance(reg, dict):
        return _skip('SystemManager.queue')
    _bump('SystemManager.queue')
    if len(q) != len(reg):
        return False
    seen = set()
    for s in q:
        if id(s) in seen or reg.get(s.id) is not s:
            return False
        seen.add(id(s))
    return all(q[i].priority >= q[i + 1].priority for i in range(len(q) - 1))


# ---- TagLibrary: names <-> ids ------------------------------------------------------------------------------------
def taglib_consistent(self):
    names = getattr(self, '_tag_names', None)
    if not isinstance(names, list):
        return _skip('TagLibrary.bijection')
    _bump('TagLibrary.bijection')
    if len(self) != len(names) or len(set(names)) != len(names) or names[0] != 'NONE':
        return False
    return all(self.__dict__.get(n) == i for i, n in enumerate(names))


# ---- Environment: registry keyed by the agents' own ids ---------------------------------------------------------
def env_registry_consistent(self):
    agents = getattr(self, 'agents', None)
    if not isinstance(agents, dict):
        return _skip('Environment.registry')
    _bump('Environment.registry')
    return all(k == a.id for k, a in agents.items())


# ---- SpaceWorld: every resident carries a position inside the world (positive-extent axes, extents >= 1) ------------
def spaceworld_containment(self):
    agents = getattr(self, 'agents', None)
    off = getattr(self, '_index_offset', None)
    if not isinstance(agents, dict) or off is None:
        return _skip('SpaceWorld.containment')
    _bump('SpaceWorld.containment')
    import ECAgent.Environments as envs
    P = envs.PositionComponent
    for a in agents.values():
        c = a.components.get(P)
        if c is None:
            return False
        for v, e in ((c.x, self.width), (c.y, self.height), (c.z, self.depth)):
            if e >= 1 and not (0 <= v <= e - off):
                return False
    return True


_attached = set()


def attach(cls, cond, name):
    key = (id(cls), name)
    if key in _attached:
        return
    icontract.invariant(cond, error=lambda self: ContractBroken(f'{name} broken on {type(self).__name__}'))(cls)
    _attached.add(key)


def attach_system_manager(core):
    attach(core.SystemManager, sm_queue_consistent, 'SystemManager.queue')


def attach_taglibrary(tags):
    attach(tags.TagLibrary, taglib_consistent, 'TagLibrary.bijection')


def attach_environment(core):
    attach(core.Environment, env_registry_consistent, 'Environment.registry')


def attach_spaceworld(envs):
    attach(envs.SpaceWorld, spaceworld_containment, 'SpaceWorld.containment')
