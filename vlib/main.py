"""Entry: main.py <Cxx> [--tier quick|thorough] [--replay file]   (internal: --_shard i/n --_out file)"""
import argparse
import os
import sys

HERE = os.path.dirname(os.path.dirname(os.path.abspath(__file__)))
sys.path.insert(0, HERE)
DEPS = os.path.join(HERE, '.deps')
if os.path.isdir(DEPS):
    sys.path.insert(1, DEPS)

from vlib import engine  # noqa: E402


def main():
    ap = argparse.ArgumentParser()
    ap.add_argument('prop')
    ap.add_argument('--tier', default=os.environ.get('VERIF_TIER') or 'quick', choices=['quick', 'thorough'])
    ap.add_argument('--replay')
    ap.add_argument('--_shard')
    ap.add_argument('--_out')
    a = ap.parse_args()
    prop = a.prop.upper()
    try:
        seed = int(os.environ.get('VERIF_SEED', '0') or 0)
    except ValueError:
        seed = 0
    if a._shard:
        # a shard never outlives its parent: if the parent is killed (an outer timeout), the kernel kills the shard as well - a mutant
        # that makes the code under test loop forever must not leave processes behind
        try:
            import ctypes
            import signal
            libc = ctypes.CDLL('libc.so.6', use_errno=True)

            def die_with_parent():
                libc.prctl(1, signal.SIGKILL)       # PR_SET_PDEATHSIG (cleared by fork: every forked child sets it again for itself)
                if os.getppid() == 1:
                    os._exit(2)
            die_with_parent()
            # ... and so do the worker processes that the code under test forks from a shard (multiprocessing pools of batch_run /
            # grid_search): a shard that is killed must not leave idle pool workers behind
            os.register_at_fork(after_in_child=die_with_parent)
        except Exception:  # noqa - not Linux / no libc: the parent's own watchdog remains
            pass
        s, n = a._shard.split('/')
        engine.shard_main(prop, a.tier, seed, int(s), int(n), a._out)
        return 0
    if a.replay:
        return engine.replay_main(prop, a.replay)
    return engine.parent_main(prop, a.tier, seed)


if __name__ == '__main__':
    sys.exit(main())
