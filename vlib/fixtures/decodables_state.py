"""State shared by vlib.fixtures.decodables and its alias module vlib.fixtures.decodables_alt."""
EVENTS = []          # dicts appended by every lifecycle participant
CURRENT = [None]     # the model most recently created by RModel.decode (for events that are not handed the model)
FLAKY = {'armed': False}     # while armed, FlakyAgent / FailingSystem raise at their scripted point
SHARED = {}          # 'decoder' / 'inner': set by the harness for hooks that decode a nested description
EXECUTED = []    # ids of the decoded systems in the order in which they ran (first timestep of a decoded model)
