"""C07 fixture: a scripted model whose whole trajectory (every random pick, shuffle order, position, component value, collector
record) is written to a trace.  All randomness of the model code comes from model.random.  Importable, so it also runs inside
batch_run workers and fresh interpreters."""
import hashlib
import json

import ECAgent.Core as core
import ECAgent.Collectors as collectors


class Energy(core.Component):
    __slots__ = ['e']

    def __init__(self, agent, model, e):
        super().__init__(agent, model)
        self.e = e


class Wool(core.Component):
    __slots__ = ['w']

    def __init__(self, agent, model, w):
        super().__init__(agent, model)
        self.w = w


class Rare(core.Component):
    """Carried by very few agents of a large population (sparse template)."""
    __slots__ = []


class _Sys(core.System):
    def call(self, fn, *a, **kw):
        return self.model.call(fn, *a, **kw)


class Births(_Sys):
    def execute(self):
        m = self.model
        for _ in range(m.random.randint(0, 2)):
            m.spawn()


class Deaths(_Sys):
    def execute(self):
        m = self.model
        env = m.environment
        style = m.random.randint(0, 3)
        if style == 0:
            victim = self.call(env.get_random_agent)
        elif style == 1:
            victim = self.call(env.get_random_agent, Wool)
        elif style == 2:
            victim = self.call(env.get_random_agent, tag=m.random.randint(0, 2))
        else:
            victim = self.call(env.get_random_agent, Energy, tag=m.random.randint(0, 2))
        m.trace.append(f'death:{style}:{victim.id if victim is not None else None}')
        if victim is not None and len(env) > 3:
            self.call(env.remove_agent, victim.id)


class Movers(_Sys):
    def execute(self):
        m = self.model
        env = m.environment
        order = self.call(env.shuffle, Energy)
        m.trace.append('order:' + ','.join(a.id for a in order))
        for a in order:
            a[Energy].e += m.random.randint(-3, 3)
            if m.cfg['world'] != 'plain':
                if m.cfg['world'] == 'grid':
                    if m.random.random() < 0.5:
                        self.call(env.move, a, m.random.randint(-2, 2), m.random.randint(-2, 2))
                    else:   # hop to a random neighbouring cell (moore / von neumann, radius 1-2)
                        cells = self.call(env.get_neighbours, a[m.position_type], m.random.randint(1, 2), m.random.random() < 0.5, tuple,
                                          m.random.choice(['moore', 'neumann']))
                        ids = self.call(env.get_moore_neighbours, a[m.position_type], 1, True)
                        m.trace.append(f'nb:{a.id}:{len(cells)}:{ids}')
                        if cells:
                            # the answer is the caller's list: it is shuffled in place with the model's generator, the first entry is the
                            # destination, and the rest is thrown away
                            m.random.shuffle(cells)
                            c = cells[0]
                            del cells[1:]
                            ids.reverse()
                            self.call(env.move_to, a, c[0], c[1])
                else:
                    self.call(env.move, a, m.random.uniform(-2, 2), m.random.uniform(-2, 2), m.random.uniform(-1, 1))
                m.trace.append(f'pos:{a.id}:{a[m.position_type].xyz()}')


class Picks(_Sys):
    def execute(self):
        m = self.model
        env = m.environment
        out = []
        for args, kw in (((), {}), ((Wool,), {}), ((), {'tag': 1}), ((Energy,), {'tag': 2}), ((Energy, Wool), {'tag': 0}), ((Wool,), {'tag': 1})):
            a = self.call(env.get_random_agent, *args, **kw)
            out.append(a.id if a is not None else '-')
        m.trace.append('picks:' + ','.join(out))
        m.trace.append('sh1:' + ','.join(a.id for a in self.call(env.shuffle, tag=1)))
        m.trace.append('sh2:' + ','.join(a.id for a in self.call(env.shuffle, Wool, tag=0)))
        m.trace.append('sh3:' + ','.join(a.id for a in self.call(env.shuffle, Energy, tag=2)))
        m.trace.append('ls:' + ','.join(a.id for a in self.call(env.get_agents, Energy, tag=1)))
        if m.cfg.get('rare'):
            rare = [self.call(env.get_random_agent, Rare) for _ in range(6)] + [self.call(env.get_random_agent, Rare, tag=m.random.randint(0, 2))]
            m.trace.append('rare:' + ','.join(a.id if a is not None else '-' for a in rare))
        m.trace.append('all:' + ','.join(a.id for a in self.call(env.get_agents)))


class QuietWalk(_Sys):
    def execute(self):
        m = self.model
        m.trace.append(f'walk:{m.random.randint(0, 999)}')


class LatePick(_Sys):
    """One of several systems that another system registers in the middle of a timestep; draws once per turn."""

    def execute(self):
        m = self.model
        a = self.call(m.environment.get_random_agent)
        m.trace.append(f'late:{self.id}:{a.id if a is not None else None}:{m.random.randint(0, 999)}')


class Spawner(_Sys):
    """At timestep 1 registers a batch of systems - same priority, ids that are plain words - from inside its own turn (a model that
    switches on extra behaviour once it has warmed up).  Their turn order follows the order of the add_system calls, like any other."""

    def execute(self):
        m = self.model
        if m.systems.timestep == 1:
            for name in ('picker-gamma', 'picker-alpha', 'picker-epsilon', 'picker-beta', 'picker-delta'):
                m.systems.add_system(LatePick(name, m, priority=0))
            m.trace.append('spawned')


class DigestCollector(collectors.Collector):
    """Holds the digest record that batch_run returns; the record is written by the Finale system."""

    def collect(self):
        pass


class Finale(_Sys):
    """Last step: marks the model complete and then runs a closing round on the finished model (reporting code samples and
    shuffles the final population), still through the framework and hence still from the model's own generator."""

    def execute(self):
        m = self.model
        if m.systems.timestep != m.cfg['steps'] - 1:
            return
        env = m.environment
        m.complete()
        m.trace.append('closing-order:' + ','.join(a.id for a in self.call(env.shuffle)))
        a = self.call(env.get_random_agent, Energy)
        m.trace.append(f'closing-pick:{a.id if a is not None else None}')
        m.trace.append('closing-tagged:' + ','.join(x.id for x in self.call(env.shuffle, Energy, tag=1)))
        m.systems['digest'].records.append({'seed': m.seed_used, 'cfg': m.cfg_key, 'digest': m.digest(), 'picks': m.n_calls})


class TraceModel(core.Model):
    __slots__ = ['cfg', 'cfg_key', 'trace', 'hooks', 'counter', 'seed_used', 'position_type', 'n_calls', 'energy_collector']

    def __init__(self, cfg, seed, hooks=None):
        if isinstance(cfg, str):
            cfg = json.loads(cfg)
        if cfg.get('assign_seed'):
            # the other public way to give a model its generator: build it unseeded, then assign the documented attribute `model.random`
            # (the default environment exists already) - from then on this IS the model's own seeded generator
            import random as _random
            super().__init__()
            self.random = _random.Random(seed)
        else:
            super().__init__(seed=seed)
        self.cfg, self.cfg_key = cfg, json.dumps(cfg, sort_keys=True)
        self.trace, self.hooks, self.counter, self.seed_used, self.n_calls = [], hooks, 0, seed, 0
        self.position_type = None
        if cfg['world'] == 'grid':
            import ECAgent.Environments as envs
            self.environment = envs.GridWorld(self, cfg['w'], cfg['h'], wrap_env=cfg['wrap'])
            self.position_type = envs.PositionComponent
        elif cfg['world'] == 'space':
            import ECAgent.Environments as envs
            self.environment = envs.SpaceWorld(self, float(cfg['w']), float(cfg['h']), 3.0, wrap_env=cfg['wrap'])
            self.position_type = envs.PositionComponent
        for _ in range(cfg['n']):
            self.spawn()
        mix = cfg['mix'] if not cfg.get('quiet') else ''
        if cfg.get('quiet'):
            # a model whose systems never ask the environment for anything random while it runs (they use model.random directly): the
            # first pick / shuffle of the whole run is the closing round on the finished model
            self.systems.add_system(QuietWalk('walk', self, priority=1))
        if 'b' in mix:
            self.systems.add_system(Births('births', self, priority=3))
        if 'd' in mix:
            self.systems.add_system(Deaths('deaths', self, priority=2))
        if 'm' in mix:
            self.systems.add_system(Movers('movers', self, priority=1))
        if cfg.get('spawn'):
            self.systems.add_system(Spawner('spawner', self, priority=4))
        if not cfg.get('quiet'):
            self.systems.add_system(Picks('picks', self, priority=0))
        self.energy_collector = collectors.AgentCollector(self, lambda a: a[Energy].e if Energy in a else None, includeTimstep=True,
                                                          id='energy')
        self.systems.add_system(self.energy_collector)
        self.systems.add_system(DigestCollector('digest', self, priority=-30))
        self.systems.add_system(Finale('finale', self, priority=-40))

    def call(self, fn, *a, **kw):
        self.n_calls += 1
        h = self.hooks
        if h is not None:
            h.before()
        r = fn(*a, **kw)
        if h is not None:
            h.after(getattr(fn, '__name__', str(fn)))
        return r

    def spawn(self):
        r = self.random
        a = core.Agent(f'agent-{self.counter}-{r.randint(0, 999)}', self, tag=r.randint(0, 2))
        self.counter += 1
        a.add_component(Energy(a, self, r.randint(0, 50)))
        if r.random() < 0.5:
            a.add_component(Wool(a, self, r.random()))
        if r.random() < self.cfg.get('rare', 0.0):
            a.add_component(Rare(a, self))
        env = self.environment
        if self.cfg['world'] == 'grid':
            self.call(env.add_agent, a, r.randint(0, self.cfg['w'] - 1), r.randint(0, self.cfg['h'] - 1))
        elif self.cfg['world'] == 'space':
            self.call(env.add_agent, a, r.uniform(0, self.cfg['w']), r.uniform(0, self.cfg['h']), r.uniform(0, 3))
        else:
            self.call(env.add_agent, a)
        self.trace.append(f'birth:{a.id}:{a.tag}:{sorted(t.__name__ for t in a.components)}')

    def digest(self):
        h = hashlib.sha256()
        h.update('\n'.join(self.trace).encode())
        h.update(json.dumps(self.energy_collector.records, sort_keys=True).encode())
        return h.hexdigest()


def run_plain(cfg, seed, hooks=None, between=None):
    """Runs one trajectory to completion, one step at a time; `between` is called between steps (to step other models)."""
    m = TraceModel(cfg, seed, hooks)
    while m.is_running():
        if hooks is not None:
            hooks.before()
        m.execute()
        if hooks is not None:
            hooks.after('execute')
        if between is not None:
            between()
    return m.systems['digest'].records[-1]['digest'], m


class KwTraceModel(TraceModel):
    """The same model written with an open signature: everything but cfg travels through **kwargs (the seed included)."""
    __slots__ = []

    def __init__(self, cfg, **model_kwargs):
        super().__init__(cfg, model_kwargs.pop('seed', None), **model_kwargs)
