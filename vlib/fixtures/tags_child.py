"""Fresh-interpreter history against the module-level tag library (+ one local library, interleaved).
argv: seed, case index.  Prints one JSON line."""
import json
import os
import random
import sys

HERE = os.path.dirname(os.path.dirname(os.path.dirname(os.path.abspath(__file__))))
sys.path.insert(0, HERE)
sys.path.insert(0, os.environ.get('VERIF_REPO', '/repo'))
if os.environ.get('VERIF_MODE') == 'debuglog':       # same process configuration as the shard that started this child
    import logging
    logging.getLogger().setLevel(logging.DEBUG)
    logging.getLogger().addHandler(logging.NullHandler())

from vlib.engine import CaseViolation, jsonable  # noqa: E402
from vlib.tagoracle import LibDriver, HOSTILE_MODULE, ORDINARY, gen_names, runtime_hostile, own_attribute_names  # noqa: E402


class Stub:
    def __init__(self):
        self.counters, self.evaluations = {}, 0

    def count(self, k, n=1):
        self.counters[k] = self.counters.get(k, 0) + n

    def ev(self, n=1):
        self.evaluations += n


def main():
    seed, i = sys.argv[1], sys.argv[2]
    import ECAgent.Tags as tags
    assert os.path.realpath(tags.__file__).startswith(os.path.realpath(os.environ.get('VERIF_REPO', '/repo'))), tags.__file__
    rng = random.Random(f'{seed}:C19:module:{i}')
    ctx = Stub()
    glob = LibDriver(ctx, tags, None, 'module', 'Tags(module)')
    local = LibDriver(ctx, tags, tags.TagLibrary(), 'instance', 'local')
    tried, violation, local_decisions = [], None, []
    try:
        first = rng.choice(['global', 'local'])       # which library performs the very first add_tag of the process
        (glob if first == 'global' else local).add(rng.choice(ORDINARY))
        ctx.count('first_add_' + first)
        glob.full_check(rng)
        local.full_check(rng)
        names = gen_names(rng, rng.randint(10, 30), HOSTILE_MODULE, runtime_hostile(tags), own_attribute_names(tags))
        # closure: every name the library class itself defines is tried on BOTH libraries in every history
        closure = [n for n in dir(tags.TagLibrary) if not n.startswith('__') or n in ('__len__', '__class__', '__dict__', '__weakref__', '__init__')]
        rng.shuffle(closure)
        # names that are attributes of the Tags MODULE (not of the library class): the global library may have to refuse them, a
        # local library's decision about them must not depend on what the global library has been doing in this process
        module_names = [n for n in vars(tags) if n not in dir(tags.TagLibrary)]
        rng.shuffle(module_names)
        # names of the builtins that the code of the Tags module itself refers to (read off the compiled functions): as tag names of
        # the global library they are names like any other - accepted or refused, but the libraries keep working
        import builtins
        import types
        used = set()
        for obj in list(vars(tags).values()) + list(vars(tags.TagLibrary).values()):
            fn = getattr(obj, '__func__', obj)
            if isinstance(fn, types.FunctionType):
                used |= set(fn.__code__.co_names)
        builtin_names = sorted(used & set(dir(builtins)))
        rng.shuffle(builtin_names)
        for n in builtin_names:
            glob.add(n)
            tried.append([glob.label, n])
            ctx.count('builtin_names_used_by_the_module_tried')
            glob.full_check(rng)
            local.full_check(rng)
        # closure on the module side: every attribute the Tags module has at run time (functions defined late in the file, private
        # globals, dunders) is tried as a tag name of the GLOBAL library in every history
        for n in module_names:
            glob.add(n)
            tried.append([glob.label, n])
            ctx.count('module_attribute_names_tried_on_the_global_library')
            glob.full_check(rng)
        for n in names + closure + module_names[:6]:
            d = glob if rng.random() < (0.7 if n not in closure else 0.5) and n not in module_names else local
            fresh = n not in d.ref
            size = len(d.ref)
            d.add(n)
            if d is local and fresh:
                local_decisions.append([n, len(d.ref) > size])
            tried.append([d.label, n if len(n) < 40 else n[:20] + '...'])
            glob.full_check(rng)
            local.full_check(rng)
    except CaseViolation as v:
        violation = {'what': v.what, 'detail': jsonable(v.detail)}
    except Exception as e:  # noqa
        import traceback
        violation = {'what': f'unexpected {type(e).__name__}: {e}', 'detail': {'traceback': traceback.format_exc()[-2000:]}}
    hostile = sum(1 for l, n in tried if l.startswith('Tags') and n not in ORDINARY)
    print(json.dumps({'counters': ctx.counters, 'evaluations': ctx.evaluations, 'violation': violation, 'tried': tried,
                      'final': [x[:30] for x in glob.ref], 'local_decisions': local_decisions, 'nontrivial': hostile >= 3 and len(glob.ref) >= 4}))


main()
