"""Second module with the SAME symbol names as vlib.fixtures.decodables (RModel, RSystem, RAgent, hook): executes the same source
under this module's name, so that a description can name the same symbol in two different modules."""
import os

with open(os.path.join(os.path.dirname(__file__), 'decodables.py')) as _f:
    exec(compile(_f.read(), __file__, 'exec'), globals())
