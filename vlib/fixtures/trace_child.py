"""Fresh interpreter: prints {key: digest} for a list of (cfg, seed).  argv[1]: JSON file with [[cfg, seed], ...]"""
import json
import os
import sys

HERE = os.path.dirname(os.path.dirname(os.path.dirname(os.path.abspath(__file__))))
sys.path.insert(0, HERE)
sys.path.insert(0, os.environ.get('VERIF_REPO', '/repo'))
if os.environ.get('VERIF_MODE') == 'debuglog':       # same process configuration as the shard that started this child
    import logging
    logging.getLogger().setLevel(logging.DEBUG)
    logging.getLogger().addHandler(logging.NullHandler())

from vlib.fixtures import tracemodel as tm  # noqa: E402
import ECAgent.Core as core  # noqa: E402

assert os.path.realpath(core.__file__).startswith(os.path.realpath(os.environ.get('VERIF_REPO', '/repo')))
with open(sys.argv[1]) as f:
    jobs = json.load(f)
out = []
for cfg, seed in jobs:
    d, m = tm.run_plain(cfg, seed)
    out.append(d)
print(json.dumps({'digests': out, 'hashseed': os.environ.get('PYTHONHASHSEED'), 'hash_of_a': hash('a')}))
