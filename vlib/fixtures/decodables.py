"""Recording fixtures for the Decode lifecycle (importable module: the decoder resolves names through sys.modules)."""
import ECAgent.Core as core
from ECAgent.Decode import IDecodable

EVENTS = []          # dicts appended by every lifecycle participant
CURRENT = [None]     # the model most recently created by RModel.decode (for events that are not handed the model)


def _state(model):
    if model is None:
        return None, None, None
    return id(model), sorted(model.systems.systems.keys()), len(model.environment)


def _ev(kind, name, index, model, given_model):
    mid, sysids, nres = _state(model)
    EVENTS.append({'kind': kind, 'name': name, 'index': index, 'model': mid, 'given_model': None if given_model is None else id(given_model),
                   'registered': sysids, 'residents': nres})


class RModel(core.Model, IDecodable):
    __slots__ = ['label']

    def __init__(self, label, seed=None):
        super().__init__(seed=seed)
        self.label = label

    @staticmethod
    def decode(params):
        m = RModel(params.get('label'), params.get('seed'))
        CURRENT[0] = m
        _ev('model_create', params.get('label'), None, m, None)
        return m


class RSystem(core.System, IDecodable):
    def execute(self):
        pass

    @staticmethod
    def decode(params):
        m = params.get('model')
        _ev('sys_create', params['id'], None, m if m is not None else CURRENT[0], m)
        kw = {k: params[k] for k in ('priority', 'frequency', 'start', 'end') if k in params}
        return RSystem(params['id'], m, **kw)


class RAgent(core.Agent, IDecodable):
    @staticmethod
    def decode(params):
        m = params.get('model')
        i = params.get('agent_index')
        _ev('agent_create', params['group'], i, m if m is not None else CURRENT[0], m)
        return RAgent(f"{params['group']}_{i}", m)


def hook(params):
    m = params.get('model')
    _ev(params['kind'], params.get('name'), None, m if m is not None else CURRENT[0], m)
