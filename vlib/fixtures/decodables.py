"""Recording fixtures for the Decode lifecycle (importable module: the decoder resolves names through sys.modules)."""
import ECAgent.Core as core
from ECAgent.Decode import IDecodable

from vlib.fixtures.decodables_state import EVENTS, CURRENT, SHARED, FLAKY, EXECUTED   # shared by this module and its alias module

MODULE = __name__    # the same source is also loaded under a second module name (same symbol names, different module)


def _state(model):
    if model is None:
        return None, None, None
    return id(model), sorted(model.systems.systems.keys()), len(model.environment)


def _ev(kind, name, index, model, given_model):
    mid, sysids, nres = _state(model)
    EVENTS.append({'kind': kind, 'name': name, 'index': index, 'model': mid, 'module': MODULE, 'given_model': None if given_model is None else id(given_model),
                   'registered': sysids, 'residents': nres})


class RModel(core.Model, IDecodable):
    __slots__ = ['label']

    def __init__(self, label, seed=None):
        super().__init__(seed=seed)
        self.label = label

    @staticmethod
    def decode(params):
        m = RModel(params.get('label'), params.get('seed'))
        if params.get('world') == 'grid':
            import ECAgent.Environments as envs
            m.environment = envs.GridWorld(m, 6, 5)      # agents are added through THIS environment's add_agent (position at the origin)
        if params.get('complete'):
            m.complete()             # a model that is already complete while the rest of the description is decoded
        CURRENT[0] = m
        _ev('model_create', params.get('label'), None, m, None)
        return m


class RSystem(core.System, IDecodable):
    def execute(self):
        EXECUTED.append(self.id)

    @staticmethod
    def decode(params):
        m = params.get('model')
        _ev('sys_create', params['id'], None, m if m is not None else CURRENT[0], m)
        kw = {k: params[k] for k in ('priority', 'frequency', 'start', 'end') if k in params}
        return RSystem(params['id'], m, **kw)


class RAgent(core.Agent, IDecodable):
    @staticmethod
    def decode(params):
        m = params.get('model')
        i = params.get('agent_index')
        _ev('agent_create', params['group'], i, m if m is not None else CURRENT[0], m)
        return RAgent(f"{params['group']}_{i}", m)


class FlakyAgent(core.Agent, IDecodable):
    """Like RAgent; while the harness has armed it, the constructor of the agent with index `fail_at` raises (a caller-supplied
    iterator that runs dry: StopIteration; an ordinary error; a KeyboardInterrupt-like)."""

    @staticmethod
    def decode(params):
        m = params.get('model')
        i = params.get('agent_index')
        if FLAKY['armed'] and i == params.get('fail_at'):
            from vlib import faults
            raise {'StopIteration': StopIteration, 'Boom': faults.Boom, 'Interrupt': faults.Interrupt}[params.get('exc', 'Boom')]('agent constructor fails')
        _ev('agent_create', params['group'], i, m if m is not None else CURRENT[0], m)
        return FlakyAgent(f"{params['group']}_{i}", m)


class FailingSystem(core.System, IDecodable):
    def execute(self):
        pass

    @staticmethod
    def decode(params):
        from vlib import faults
        raise faults.Boom('a system of the nested description cannot be built')


DynSystem = None      # bound by a pre_system_init hook ('bind'): the description names a class that only exists once its pre hook ran


def hook(params):
    import copy
    import sys
    m = params.get('model')
    _ev(params['kind'], params.get('name'), None, m if m is not None else CURRENT[0], m)
    if params.get('bind'):
        setattr(sys.modules[MODULE], params['bind'], RSystem)
    if params.get('replace_env') and m is not None:
        m.set_environment(core.Environment(m))          # e.g. a hook that builds the world from its parameters
    if params.get('nested'):
        # the application's shared decoder object is used to build a sub-model from another description while the outer decode
        # is still in progress; the sub-model's own events are not part of the outer lifecycle
        n, cur = len(EVENTS), CURRENT[0]
        inner = SHARED['inner']
        if params['nested'] == 'fail':
            # the nested description cannot be decoded (its second system fails to build, after its model exists); the hook shrugs
            inner = SHARED['inner_fail']
            try:
                SHARED['decoder'].decode(copy.deepcopy(inner) if isinstance(inner, dict) else inner)
                SHARED['nested_fail_unexpectedly_ok'] = True
            except Exception:  # noqa
                SHARED['nested_failures'] = SHARED.get('nested_failures', 0) + 1
        else:
            SHARED['decoder'].decode(copy.deepcopy(inner) if isinstance(inner, dict) else inner)
        SHARED['nested_runs'] = SHARED.get('nested_runs', 0) + 1
        del EVENTS[n:]
        CURRENT[0] = cur
