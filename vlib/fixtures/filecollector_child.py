"""Runs a numbered file collector and dies abruptly (os._exit(77)) right after timestep `stop`.  argv[1]: JSON config."""
import json
import os
import sys

sys.path.insert(0, os.environ.get('VERIF_REPO', '/repo'))
cfg = json.loads(sys.argv[1])

import ECAgent.Core as core  # noqa: E402
import ECAgent.Collectors as col  # noqa: E402

assert os.path.realpath(core.__file__).startswith(os.path.realpath(os.environ.get('VERIF_REPO', '/repo')))


class NumberedFile(col.FileCollector):
    def __init__(self, *a, plan=None, **kw):
        super().__init__(*a, **kw)
        self.plan, self.n = plan, 0

    def collect(self):
        t = self.model.systems.timestep
        for j in range(self.plan[self.n % len(self.plan)]):
            self.records.append(f'<{t}.{self.n}.{j}>\n')
        self.n += 1


model = core.Model()
start, end, freq = cfg['window']
model.systems.add_system(NumberedFile('fc', model, cfg['path'], frequency=freq, start=start, end=end, write_count=cfg['write_count'],
                                      plan=cfg['plan']))
for t in range(cfg['steps']):
    model.execute()
    if t == cfg['stop']:
        os._exit(77)
os._exit(3)
