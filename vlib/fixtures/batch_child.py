"""Runs a list of batch_run specs in a fresh interpreter and prints one JSON line per batch.  argv[1]: path of a JSON spec list.
A per-batch faulthandler watchdog dumps all thread stacks to stderr and exits if one batch_run call does not return."""
import faulthandler
import json
import os
import shutil
import sys
import tempfile
import time

HERE = os.path.dirname(os.path.dirname(os.path.dirname(os.path.abspath(__file__))))
sys.path.insert(0, HERE)
sys.path.insert(0, os.environ.get('VERIF_REPO', '/repo'))
if os.environ.get('VERIF_MODE') == 'debuglog':       # same process configuration as the shard that started this child
    import logging
    logging.getLogger().setLevel(logging.DEBUG)
    logging.getLogger().addHandler(logging.NullHandler())

import ECAgent.Batching as batching  # noqa: E402
from vlib.fixtures import batchmodels as bm  # noqa: E402

assert os.path.realpath(batching.__file__).startswith(os.path.realpath(os.environ.get('VERIF_REPO', '/repo')))


def main():
    with open(sys.argv[1]) as f:
        specs = json.load(f)
    for spec in specs:
        ctl = tempfile.mkdtemp(prefix='c15-')
        out = {'id': spec['id']}
        print(json.dumps({'starting': spec['id']}), flush=True)
        faulthandler.dump_traceback_later(int(os.environ.get('VERIF_BATCH_WATCHDOG', '60')), exit=True)
        try:
            with open(os.path.join(ctl, 'control.json'), 'w') as f:
                json.dump({'fault': spec.get('fault'), 'delays': spec.get('delays'), 'collectors': spec['collector_ids'],
                           'collector_priority': spec.get('collector_priority'), 'warmup': spec.get('warmup') or 0,
                           'collector_style': spec.get('collector_style') or 'append', 'stop': spec['stop']}, f)
            model_cls = bm.VModel
            if spec.get('no_params'):
                # plain replication: a model class without any parameter, an EMPTY grid ({} or an empty ParameterList) and repetitions
                os.environ['VERIF_C15_CTL'] = ctl
                model_cls = bm.ReplModel
            params = {k: (range(*v['__range__']) if isinstance(v, dict) and '__range__' in v else v) for k, v in spec['grid'].items()}
            params['ctl'] = ctl
            params['stop'] = spec['stop']
            if spec.get('no_params'):
                params = {}
            if spec.get('use_parameter_list'):
                if spec.get('pl_from_dict'):
                    # declared through the constructor from a dict that the caller goes on using for something else afterwards
                    source = dict(params)
                    pl = batching.ParameterList(source)
                    source['zzz_not_a_parameter'] = [1, 2, 3]
                    del source[next(iter(params))]
                else:
                    pl = batching.ParameterList()
                    for k, v in params.items():
                        pl.add_parameter(k, v)
                if spec.get('pl_warmup'):
                    # the same ParameterList object has been used for another batch before (other model class, repetitions of its own)
                    batching.batch_run(bm.WarmModel, pl, repetitions=spec['pl_warmup'], processes=1)
                if spec.get('pl_searched') and len(pl.build()) > 0:
                    # the same ParameterList object was tuned with grid_search first (one process: scores are written into what was built)
                    batching.grid_search(bm.WarmModel, pl, bm.zero_score, processes=1, repetitions=1)
                if spec.get('pl_history'):
                    # the same ParameterList object was used before with one more parameter, which has been removed since
                    pl.add_parameter('zeta', [1, 2, 3])
                    pl.build()
                    pl.remove_parameter('zeta')
                params = pl
            if spec.get('rejected_first') is not None:
                # an EARLIER batch_run call of the same process was refused outright (an impossible process count); the caller caught that
                try:
                    batching.batch_run(bm.WarmModel, {'ctl': ctl, 'stop': 0, 'alpha': [7, 8, 9]}, processes=spec['rejected_first'])
                    out['rejected_first'] = 'accepted'
                except BaseException as e:  # noqa
                    out['rejected_first'] = type(e).__name__
            import multiprocessing
            # workers are forked copies of this process - or, for some batches, fresh interpreters (spawn / forkserver)
            multiprocessing.set_start_method(spec.get('start_method') or 'fork', force=True)
            kw = {}
            if spec.get('max_timesteps') is not None:
                kw['max_timesteps'] = spec['max_timesteps']
            if spec['repetitions'] != 1 or spec.get('explicit_reps'):
                kw['repetitions'] = spec['repetitions']
            t0 = time.time()
            try:
                res = batching.batch_run(model_cls, params, collectors=spec['collectors'], processes=spec['processes'], **kw)
                out['result'] = res
                out['aliasing'] = len({id(r) for r in res}) != len(res) if isinstance(res, list) else None
            except BaseException as e:  # noqa
                chain, cur = [], e
                while cur is not None and len(chain) < 6:       # the error itself and what it was raised from
                    chain.append({'type': type(cur).__name__, 'tag': getattr(cur, 'tag', None)})
                    cur = cur.__cause__ or cur.__context__
                out['raised'] = {'type': type(e).__name__, 'tag': getattr(e, 'tag', None), 'str': str(e)[:200], 'chain': chain}
            out['wall'] = time.time() - t0
            out['constructions'] = len([f for f in os.listdir(ctl) if f.startswith('ord_')])
        finally:
            faulthandler.cancel_dump_traceback_later()
            shutil.rmtree(ctl, ignore_errors=True)
        print(json.dumps(out), flush=True)


if __name__ == '__main__':       # (workers started with spawn / forkserver import this file again)
    main()
