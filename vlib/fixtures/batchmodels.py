"""Importable (hence picklable) instrumented Model / System / Collector classes used through the Batching drivers."""
import ECAgent.Core as core
import ECAgent.Collectors as collectors


class _Log(core.System):
    def execute(self):
        self.model.log.append((self.model.systems.timestep, self.id))
        self.model.step_ran.append(self.id)


class _Completer(_Log):
    def execute(self):
        super().execute()
        if self.model.systems.timestep == self.model.tc:
            self.model.complete()


class _Trace(collectors.Collector):
    """Runs last in each timestep (priority -10): records which systems ran in this step."""

    def collect(self):
        self.records.append({'t': self.model.systems.timestep, 'ran': list(self.model.step_ran)})
        del self.model.step_ran[:]


class CompletingModel(core.Model):
    __slots__ = ['log', 'step_ran', 'tc']

    def __init__(self, tc, n_before=2, n_after=2):
        super().__init__()
        self.log, self.step_ran, self.tc = [], [], tc
        for j in range(n_before):
            self.systems.add_system(_Log(f'b{j}', self, priority=10 - j))
        self.systems.add_system(_Completer('completer', self, priority=0))
        for j in range(n_after):
            self.systems.add_system(_Log(f'a{j}', self, priority=-1 - j))
        self.systems.add_system(_Trace('trace', self, priority=-10))


def score_trace(model):
    return {'log': list(model.log), 'timestep': model.systems.timestep, 'running': model.is_running()}
