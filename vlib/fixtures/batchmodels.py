"""Importable (hence picklable) instrumented Model / System / Collector classes used through the Batching drivers."""
import ECAgent.Core as core
import ECAgent.Collectors as collectors


class _Log(core.System):
    def execute(self):
        self.model.log.append((self.model.systems.timestep, self.id))
        self.model.step_ran.append(self.id)


class _Completer(_Log):
    def execute(self):
        super().execute()
        if self.model.systems.timestep == self.model.tc:
            self.model.complete()


class _Trace(collectors.Collector):
    """Runs last in each timestep (priority -10): records which systems ran in this step."""

    def collect(self):
        self.records.append({'t': self.model.systems.timestep, 'ran': list(self.model.step_ran)})
        del self.model.step_ran[:]


class CompletingModel(core.Model):
    __slots__ = ['log', 'step_ran', 'tc']

    def __init__(self, tc, n_before=2, n_after=2, trace_freq=1):
        super().__init__()
        self.log, self.step_ran, self.tc = [], [], tc
        for j in range(n_before):
            self.systems.add_system(_Log(f'b{j}', self, priority=10 - j))
        self.systems.add_system(_Completer('completer', self, priority=0))
        for j in range(n_after):
            self.systems.add_system(_Log(f'a{j}', self, priority=-1 - j))
        self.systems.add_system(_Trace('trace', self, priority=-10, frequency=trace_freq))


def score_trace(model):
    return {'log': list(model.log), 'timestep': model.systems.timestep, 'running': model.is_running(),
            'trace': [r['t'] for r in model.systems.systems['trace'].records]}


# ---------------------------------------------------------------------------------------------------------------------
# C15 / C07: self-identifying batch model
# ---------------------------------------------------------------------------------------------------------------------
import json as _json
import os as _os
import time as _time
import uuid as _uuid


class InjectedFault(Exception):
    def __init__(self, tag):
        super().__init__(tag)
        self.tag = tag


class InjectedKeyError(KeyError):
    def __init__(self, tag):
        super().__init__(tag)
        self.tag = tag


class InjectedLookupError(IndexError):
    def __init__(self, tag):
        super().__init__(tag)
        self.tag = tag


class InjectedAttributeError(AttributeError):
    def __init__(self, tag):
        super().__init__(tag)
        self.tag = tag


class InjectedStop(StopIteration):
    def __init__(self, tag):
        super().__init__(tag)
        self.tag = tag


class InjectedOSError(FileNotFoundError):
    """An OSError-family error raised by a run (a model that cannot find its input file)."""

    def __init__(self, tag=None):
        super().__init__(tag)
        self.tag = tag

    def __reduce__(self):
        return (InjectedOSError, (self.tag,))


class InjectedModelComplete(core.ModelCompleteError):
    """The library's own error type raised INSIDE a run (a system that strictly steps a finished sub-model): an error like any other."""

    def __init__(self, tag=None):
        super().__init__()
        self.tag = tag

    def __reduce__(self):
        return (InjectedModelComplete, (self.tag,))


FAULT_CLASSES = {c.__name__: c for c in (InjectedFault, InjectedKeyError, InjectedLookupError, InjectedAttributeError, InjectedStop,
                                         InjectedModelComplete, InjectedOSError)}


class ExecuteBypassed(AssertionError):
    pass


def _check_driven_through_execute(m, t):
    """The fixture models override Model.execute() (the documented way to step a model) to count the requested steps; a driver that
    steps the scheduler behind the model's back leaves the count behind the clock."""
    if m.ticks < t + 1:
        raise ExecuteBypassed(f'timestep {t} is running but the model\'s own execute() has only been asked for {m.ticks} steps: '
                              f'the driver bypassed the model\'s execute() override')


def make_fault(fault):
    if fault.get('exc') == 'DeprecatedAliasCall':
        # the run uses one of the library's deprecated camelCase spellings: harmless by default (a DeprecationWarning is issued),
        # an ERROR of this run in a process that turns warnings into errors
        core.Agent('tmp', None).hasComponent()
        return None
    return FAULT_CLASSES[fault.get('exc', 'InjectedFault')](fault['tag'])


def _claim_ordinal(ctl):
    """Global (cross-process) construction ordinal: first free ord_<n> file in the control directory."""
    n = 0
    while True:
        try:
            fd = _os.open(_os.path.join(ctl, f'ord_{n}'), _os.O_CREAT | _os.O_EXCL | _os.O_WRONLY)
            _os.close(fd)
            return n
        except FileExistsError:
            n += 1


class _Work(core.System):
    def execute(self):
        m = self.model
        t = m.systems.timestep
        if m.delay:
            _time.sleep(m.delay)
        _check_driven_through_execute(m, t)
        if m.fault and m.fault.get('kind') == 'step' and m.fault['ordinal'] == m.ordinal and m.fault['t'] == t:
            f_ = make_fault(m.fault)
            if f_ is not None:
                if m.fault.get('after_complete'):
                    m.complete()          # the run ends itself and THEN fails, in the same system call (a failing wrap-up)
                raise f_
        if t == m.stop:
            m.complete()


class _Ident(collectors.Collector):
    def collect(self):
        m = self.model
        rec = {'uuid': m.run_uuid, 'collector': self.id, 'params': m.params, 't': m.systems.timestep,
               'model_t': m.timestep, 'pid': _os.getpid(), 'ordinal': m.ordinal, 'class_state': type(m).latest}
        if m.collector_style == 'rebind':
            self.records = self.records + [rec]       # the documented attribute assigned anew (a rolling window / a filtered copy)
        else:
            self.records.append(rec)


def zero_score(model):
    return 0


class WarmModel(core.Model):
    """Accepts the same parameters as VModel, is complete at once, records nothing (used for an EARLIER batch run with the same
    ParameterList object)."""

    def __init__(self, ctl=None, stop=0, **params):
        super().__init__()
        self.complete()


class VModel(core.Model):
    """Fresh uuid per construction; stamps every record; completes at `stop`; sleeps a little so completion order varies."""
    __slots__ = ['run_uuid', 'params', 'ordinal', 'fault', 'delay', 'stop', 'ticks', 'collector_style']
    latest = None         # class-level state set up by the constructor (like species-wide class components / default tags / a global seed)

    def execute(self, n=1):
        self.ticks += n
        super().execute(n)

    def __init__(self, ctl, stop, **params):
        super().__init__()
        self.ticks = 0
        self.run_uuid = _uuid.uuid4().hex
        type(self).latest = self.run_uuid
        self.params = dict(params)
        self.stop = stop
        self.ordinal = _claim_ordinal(ctl)
        with open(_os.path.join(ctl, 'control.json')) as f:
            control = _json.load(f)
        self.fault = control.get('fault')
        self.collector_style = control.get('collector_style') or 'append'
        delays = control.get('delays') or [0]
        self.delay = delays[self.ordinal % len(delays)]
        if self.fault and self.fault.get('kind') == 'ctor' and self.fault['ordinal'] == self.ordinal:
            f_ = make_fault(self.fault)
            if f_ is not None:
                raise f_
        self.systems.add_system(_Work('work', self))
        for cid in control['collectors']:
            # collectors either keep their default priority (-1) or share the priority of the completing system (registered after it)
            if control.get('collector_priority') is None:
                self.systems.add_system(_Ident(cid, self))
            else:
                self.systems.add_system(_Ident(cid, self, priority=control['collector_priority']))
        if control.get('warmup'):
            self.execute(control['warmup'])        # a burn-in the model runs itself before it is handed over


class ReplModel(VModel):
    """The same model without parameters (plain Monte-Carlo replication): where to find its control file comes from the environment."""
    __slots__ = []

    def __init__(self):
        ctl = _os.environ['VERIF_C15_CTL']
        with open(_os.path.join(ctl, 'control.json')) as f:
            stop = _json.load(f)['stop']
        super().__init__(ctl, stop)


# ---------------------------------------------------------------------------------------------------------------------
# C16: grid-search fixture.  TABLE / COUNTS are module globals: set by the harness before each call, inherited by forked workers.
# ---------------------------------------------------------------------------------------------------------------------
TABLE = {}        # key(params) -> list of scores, one per repetition
COUNTS = {}       # key(params) -> constructions so far in this process
EXPECT_T = [None]


def pkey(params):
    return _json.dumps({k: v for k, v in params.items() if k not in ('records', 'score')}, sort_keys=True, default=str)


class _Stopper(core.System):
    def execute(self):
        _check_driven_through_execute(self.model, self.model.systems.timestep)
        if self.model.systems.timestep == self.model.stop:
            self.model.complete()


class SModel(core.Model):
    __slots__ = ['params', 'rep', 'stop', 'ticks']

    def execute(self, n=1):
        self.ticks += n
        super().execute(n)

    def __init__(self, stop=0, seed=None, **params):
        super().__init__(seed=seed)
        self.ticks = 0
        for k in params:                 # like a model with an explicit signature: unknown keywords are an error
            if k not in ('lr', 'size', 'mode_name'):
                raise TypeError(f"SModel.__init__() got an unexpected keyword argument '{k}'")
        self.stop = stop
        self.params = dict(params, stop=stop)
        if seed is not None:
            self.params['seed'] = seed
        k = pkey(self.params)
        self.rep = COUNTS.get(k, 0)
        COUNTS[k] = self.rep + 1
        self.systems.add_system(_Stopper('stopper', self))


class _Tiny(core.Model):
    def __init__(self, q=0):
        super().__init__()
        self.complete()


def _failing_score(model):
    raise InjectedFault('inner search fails')


def table_score_nested(model):
    """A score function that first tries a small search of its own (sequential), which FAILS; it catches the error and scores the model
    it was given as usual."""
    import ECAgent.Batching as _batching
    try:
        _batching.grid_search(_Tiny, {'q': [1, 2, 3]}, _failing_score, processes=1, repetitions=3, max_timesteps=5)
    except InjectedFault:
        pass
    return table_score(model)


def table_score(model):
    if EXPECT_T[0] is not None and model.systems.timestep != EXPECT_T[0]:
        raise AssertionError(f'model handed to the score function is at timestep {model.systems.timestep}, expected {EXPECT_T[0]}')
    noise = 0
    if 'seed' in model.params:      # the score also depends on the model's own seeded generator (dyadic, so sums stay exact)
        noise = int(model.random.random() * 64) / 8
    return TABLE[pkey(model.params)][model.rep] + noise
