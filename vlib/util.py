"""Small helpers shared by the monitors."""
import itertools

from vlib.engine import CaseViolation


def expect_raises(exc_types, what, fn, *a, exact=False, **kw):
    """Calls fn; it must raise one of exc_types (exact=True: exactly that class). Returns the exception."""
    if not isinstance(exc_types, tuple):
        exc_types = (exc_types,)
    try:
        r = fn(*a, **kw)
    except Exception as e:  # noqa
        ok = type(e) in exc_types if exact else isinstance(e, exc_types)
        if ok:
            return e
        raise CaseViolation(f'{what}: raised {type(e).__name__}({e}) instead of '
                            f'{"/".join(t.__name__ for t in exc_types)}')
    raise CaseViolation(f'{what}: accepted (returned {r!r}) instead of raising '
                        f'{"/".join(t.__name__ for t in exc_types)}')


def check(cond, what, **detail):
    if not cond:
        raise CaseViolation(what, **detail)


def ids(objs):
    return [id(o) for o in objs]


def same_objects(a, b):
    a, b = list(a), list(b)
    return len(a) == len(b) and all(x is y for x, y in zip(a, b))


def multiset_perms(items):
    """Distinct permutations of a multiset (sorted input), lexicographic."""
    return sorted(set(itertools.permutations(items)))
