"""pytest plugin: runs the repository's own test-suite with the harness' icontract invariants attached to the real classes
(DESIGN section 6.3).  usage: cd <tree> && PYTHONPATH=<tree>:/verif:/verif/.deps python -m pytest -p vlib.pytest_contracts tests"""
import json
import os


def pytest_configure(config):
    import ECAgent.Core as core
    import ECAgent.Environments as envs
    import ECAgent.Tags as tags
    from vlib import contracts
    contracts.attach_system_manager(core)
    contracts.attach_environment(core)
    contracts.attach_spaceworld(envs)
    contracts.attach_taglibrary(tags)


def pytest_sessionfinish(session, exitstatus):
    from vlib import contracts
    out = os.environ.get('VERIF_CONTRACT_REPORT')
    if out:
        with open(out, 'w') as f:
            json.dump({'evaluations': contracts.EVALS, 'skipped': contracts.SKIPPED, 'exitstatus': int(exitstatus)}, f)
