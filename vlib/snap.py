"""Full observable state of a model, as a comparable value (identities via id()).  Used to bracket operations that the
properties say must 'change nothing'."""


def agent_state(a, position_type=None):
    comps = tuple(sorted((t.__module__ + '.' + t.__qualname__, id(c)) for t, c in a.components.items()))
    pos = None
    if position_type is not None and position_type in a.components:
        p = a.components[position_type]
        pos = (p.x, p.y, p.z)
    return (a.id, a.tag, id(a.model), comps, pos)


def snapshot(model, universe=(), types=(), position_type=None, extra=None):
    env = model.environment
    residents = tuple((a.id, id(a)) for a in env)
    listing = []
    for t in tuple(types) + ((position_type,) if position_type is not None else ()):
        got = model.systems.get_components(t)
        listing.append((t.__qualname__, None if got is None else tuple(id(c) for c in got)))
    s = {
        'residents': residents,
        'len': len(env),
        'agents': tuple(agent_state(a, position_type) for a in universe),
        'env_self': agent_state(env, position_type),
        'listings': tuple(listing),
        'timestep': (model.systems.timestep, model.timestep),
        'running': (model.is_running(), bool(model)),
        'systems': tuple(sorted(model.systems.systems.keys())) if hasattr(model.systems, 'systems') else None,
    }
    if extra is not None:
        s['extra'] = extra()
    return s


def diff(a, b):
    return [k for k in a if a[k] != b.get(k)]
