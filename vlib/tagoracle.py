"""Reference-model oracle for tag libraries (used in-process for instances and inside a fresh interpreter for the
module-level library)."""
from vlib.engine import CaseViolation

ORDINARY = ['PREY', 'PREDATOR', 'SHEEP', 'WOLF', 'GRASS', 'TAG1', 'TAG2', 'Tag3', 'Household', 'FARMER', 'A', 'B', 'Agent007', 'X_1']
HOSTILE_INSTANCE = ['itemize', 'add_tag', 'get_tag_name', '_tag_counter', '_tag_names', '__len__', '__class__', '__dict__', '__init__',
                    '__doc__', '__weakref__', '__module__', '__getattr__', '__getattribute__', '__setattr__', '__slots__', '__hash__',
                    '__eq__', '__repr__', '__new__', 'mro', '__name__', '', ' ', 'two words', '1st', 'tag-with-dash', 'näme', '标签',
                    'none', 'None', 'NONE ', 'x' * 10000, 'km\u00b2', '\ufb01sh', '\uff21\uff22', '\u212bngstrom', 'e\u0301', 'self', 'lambda', 'tag.with.dots', '\n', 'TagLibrary', '_module_library',
                    # pairs of distinct names that unicode compatibility normalisation would merge (both members are in the pool)
                    'km2', 'fish', '\u00b5', '\u03bc', 'AB', 'Caf\u00e9', 'Cafe\u0301', '\u00c5ngstrom']
HOSTILE_MODULE = HOSTILE_INSTANCE + ['TagLibrary', 'DuplicateTagError', 'TagNotFoundError', '_module_library', '__file__', '__builtins__',
                                     '__spec__', '__loader__', '__package__', '__path__', '__all__', '__cached__', 'itemize', 'add_tag']


def runtime_hostile(tags):
    """Every attribute name that resolves on a library instance, on the Tags module or on their types."""
    import types
    used = tags.TagLibrary()
    for warm in ('WARM_A', 'WARM_B', 'WARM_A'):
        try:
            used.add_tag(warm)
        except Exception:  # noqa
            pass
    try:
        used.itemize(), used.get_tag_name(1), len(used)
    except Exception:  # noqa
        pass
    names = set(dir(tags)) | set(dir(types.ModuleType)) | set(dir(tags.TagLibrary())) | set(dir(type)) | set(dir(used)) | set(vars(used))
    names -= {'WARM_A', 'WARM_B'}
    return sorted(names)


def own_attribute_names(tags):
    """Names of the instance attributes a library creates for itself at any time of its life (eagerly or lazily)."""
    used = tags.TagLibrary()
    try:
        used.add_tag('WARM_A'), used.itemize(), used.get_tag_name(1), len(used)
    except Exception:  # noqa
        pass
    return sorted(k for k in vars(used) if k not in ('WARM_A', 'NONE'))


UNKNOWN_PROBES = ['NEVER_ADDED', 'Unknown9', 'ZZZ']


COMPAT_PAIRS = [('km\u00b2', 'km2'), ('\ufb01sh', 'fish'), ('\u00b5', '\u03bc'), ('\uff21\uff22', 'AB'), ('Caf\u00e9', 'Cafe\u0301'),
                ('\u212bngstrom', '\u00c5ngstrom')]


def gen_names(rng, n, hostile, extra=(), first=()):
    out = []
    if first and rng.random() < 0.35:
        out.append(rng.choice(list(first)))      # the very first name a fresh library ever sees is one of its own attribute names
    for _ in range(n):
        x = rng.random()
        if x < 0.40:
            out.append(rng.choice(ORDINARY))
        elif x < 0.50 and out:
            out.append(rng.choice(out))                 # duplicate of an earlier attempt
        elif x < 0.55:
            out.append('NONE')
        elif x < 0.62:
            out.append(f'GEN_{rng.randint(0, 10 ** 6)}')
        elif x < 0.66:
            pair = list(rng.choice(COMPAT_PAIRS))          # two DIFFERENT names that compatibility normalisation would merge
            rng.shuffle(pair)
            out.extend(pair)
        elif x < 0.8 or not extra:
            out.append(rng.choice(hostile))
        else:
            out.append(rng.choice(extra))
    # a name may arrive as an instance of a str subclass (a wrapped label, a str-mixin Enum member): equal to and hashing like the plain
    # string, possibly with a different str() - it is the same name
    from vlib import reps
    return [reps.as_str(rng, n, 0.12) for n in out]


class LibDriver:
    def __init__(self, ctx, tags, lib, mode, label):
        self.ctx, self.tags, self.lib, self.mode, self.label = ctx, tags, lib, mode, label
        self.ref = ['NONE']
        self.rejected_dups = 0

    # --- raw operations ------------------------------------------------------------------------------------------
    def _add(self, name):
        return self.tags.add_tag(name) if self.mode == 'module' else self.lib.add_tag(name)

    def _by_name(self, name):
        return getattr(self.tags, name) if self.mode == 'module' else getattr(self.lib, name)

    def _by_id(self, i):
        return self.tags.get_tag_name(i) if self.mode == 'module' else self.lib.get_tag_name(i)

    def _itemize(self):
        return self.tags.itemize() if self.mode == 'module' else self.lib.itemize()

    def _len(self):
        return len(self.tags._module_library) if self.mode == 'module' and hasattr(self.tags, '_module_library') else (
            len(self._itemize()) if self.mode == 'module' else len(self.lib))

    # --- observations --------------------------------------------------------------------------------------------
    def observe(self):
        out = {'len': self._len(), 'items': list(self._itemize())}
        for n in self.ref:
            try:
                out['n:' + n] = self._by_name(n)
            except Exception as e:  # noqa
                out['n:' + n] = f'raised {type(e).__name__}'
        return out

    def add(self, name):
        ctx = self.ctx
        hostile = name not in ORDINARY and not name.startswith('GEN_')
        if hostile:
            ctx.count('hostile_tried')
        before = self.observe()
        must_reject = name in self.ref
        try:
            self._add(name)
            accepted = True
        except self.tags.DuplicateTagError:
            accepted = False
        except Exception as e:  # noqa
            raise CaseViolation(f'{self.label}: add_tag({name[:60]!r}) raised {type(e).__name__}({e}) - only DuplicateTagError is documented',
                                accepted_so_far=self.ref[:30])
        ctx.ev()
        if type(name) is not str:
            ctx.count('names_as_str_subclass')
        if accepted:
            if must_reject:
                raise CaseViolation(f'{self.label}: add_tag({name[:60]!r}) accepted a name that is already a tag', accepted_so_far=self.ref[:30])
            self.ref.append(name)
            ctx.count('adds_accepted')
            if hostile:
                ctx.count('hostile_accepted')
        else:
            if name == 'NONE':
                ctx.count('adds_rejected_none')
            elif must_reject:
                ctx.count('adds_rejected_duplicate')
                self.rejected_dups += 1
            elif hostile:
                ctx.count('hostile_rejected')
            else:
                raise CaseViolation(f'{self.label}: add_tag({name!r}) rejected a fresh ordinary identifier', accepted_so_far=self.ref[:30])
            after = self.observe()
            if after != before:
                raise CaseViolation(f'{self.label}: rejected add_tag({name[:60]!r}) changed the library',
                                    before={k: v for k, v in before.items() if after.get(k) != v},
                                    after={k: v for k, v in after.items() if before.get(k) != v})

    def add_unusable(self, rng):
        """A name the library cannot even look at: a str-subclass instance that is unhashable (it defines __eq__ only) or whose
        __hash__ raises (an ordinary error or a KeyboardInterrupt-like).  Whatever comes out of add_tag, the library is as before."""
        from vlib import faults
        kind = rng.choice(['unhashable', 'hash_raises', 'hash_interrupts'])
        if kind == 'unhashable':
            cls = type('EqOnly', (str,), {'__eq__': lambda a, b: str.__eq__(a, b)})
        else:
            exc = faults.Boom if kind == 'hash_raises' else faults.Interrupt

            def _h(self_, exc=exc):
                raise exc('hashing this name fails')
            cls = type('BadHash', (str,), {'__hash__': _h})
        name = cls(f'UNUSABLE_{rng.randint(0, 999)}')
        before = self.observe()
        _, err = faults.attempt(self._add, name)
        self.ctx.count('unusable_names_tried')
        after = self.observe()
        if err is not None and after != before:
            raise CaseViolation(f'{self.label}: add_tag of a name that cannot be hashed failed ({type(err).__name__}) but changed the library',
                                before={k: v for k, v in before.items() if after.get(k) != v}, after={k: v for k, v in after.items() if before.get(k) != v})
        if err is None:
            self.ref.append(name)        # (a library that copes with such a name has simply accepted one more tag)

    look_p = 1.0          # how often the library is looked at after an operation (set per library by the drivers)

    def full_check(self, rng):
        ctx = self.ctx
        if self.look_p < 1.0 and rng.random() >= self.look_p:
            ctx.count('operations_after_which_nobody_looked')
            return
        ctx.count('full_checks')
        ref = self.ref
        n = len(ref)
        try:
            if rng.random() < 0.5:          # (the first thing asked at a look is the length, or the itemised list)
                ln = self._len()
                items = self._itemize()
            else:
                items = self._itemize()
                ln = self._len()
        except Exception as e:  # noqa
            raise CaseViolation(f'{self.label}: a library operation broke: {type(e).__name__}({e})', accepted=ref[:30])
        ctx.ev()
        if ln != n:
            raise CaseViolation(f'{self.label}: len is {ln}, expected {n}', accepted=ref[:30])
        if isinstance(items, list) and rng.random() < 0.5:
            # the caller keeps / edits the list it was handed: the library must not be affected
            kept = list(items)
            junk = rng.choice(['pop', 'clear', 'reverse', 'append'])
            if junk == 'pop' and items:
                items.pop(0)
            elif junk == 'clear':
                items.clear()
            elif junk == 'reverse':
                items.reverse()
            else:
                items.append(('JUNK', -1))
            ctx.count('itemize_result_mutated')
            items = self._itemize()
            if list(items) != kept:
                raise CaseViolation(f'{self.label}: editing the list returned by itemize() ({junk}) changed what the library itemises next',
                                    expected=[(str(a)[:30], b) for a, b in kept[:20]], observed=[(str(a)[:30], b) for a, b in list(items)[:20]])
        if list(items) != [(name, i) for i, name in enumerate(ref)]:
            raise CaseViolation(f'{self.label}: itemize() differs from the accepted names in id order', expected=[(x[:30], i) for i, x in enumerate(ref)][:30],
                                observed=[(str(a)[:30], b) for a, b in list(items)[:30]])
        for i, name in enumerate(ref):
            try:
                got = self._by_name(name)
            except Exception as e:  # noqa
                raise CaseViolation(f'{self.label}: lookup of accepted tag {name[:60]!r} by name raised {type(e).__name__}', accepted=ref[:30])
            if type(got) is not int or got != i:
                raise CaseViolation(f'{self.label}: tag {name[:60]!r} has id {i} but looking it up by name gives {got!r:.80}', accepted=ref[:30])
            try:
                back = self._by_id(i)
            except Exception as e:  # noqa
                raise CaseViolation(f'{self.label}: get_tag_name({i}) raised {type(e).__name__}({e})', accepted=ref[:30])
            if back != name:
                raise CaseViolation(f'{self.label}: get_tag_name({i}) is {back[:60]!r}, expected {name[:60]!r}', accepted=ref[:30])
            ctx.ev()
        for bad in [-1, n, n + 5, 10 ** 9, -(10 ** 9)] + (list(range(-n - 2, -1)) if n <= 40 else
                                                                 list(range(-n - 2, -n + 3)) + [-2, -3, -5, -(n // 2)]):   # (negative indices that would address a name from the end)
            try:
                r = self._by_id(bad)
            except self.tags.TagNotFoundError:
                ctx.count('id_probes')
            except Exception as e:  # noqa
                raise CaseViolation(f'{self.label}: get_tag_name({bad}) raised {type(e).__name__} instead of TagNotFoundError', n_tags=n)
            else:
                raise CaseViolation(f'{self.label}: get_tag_name({bad}) returned {r!r:.60} for an id outside 0..{n - 1}', n_tags=n)
        want = self.tags.TagNotFoundError if self.mode == 'module' else AttributeError
        probes = list(UNKNOWN_PROBES)
        if self.mode == 'module':
            # names that exist on the library CLASS but are neither tags nor attributes of the module: still unknown tag names
            import types
            probes += [x for x in dir(self.tags.TagLibrary) if x not in vars(self.tags) and not hasattr(types.ModuleType, x)
                       and not (x.startswith('_') and not x.startswith('__'))]
        for u in probes:
            if u in ref:
                continue
            try:
                r = self._by_name(u)
            except want:
                ctx.count('unknown_name_probes')
            except Exception as e:  # noqa
                raise CaseViolation(f'{self.label}: lookup of unknown name {u!r} raised {type(e).__name__} instead of {want.__name__}')
            else:
                raise CaseViolation(f'{self.label}: lookup of unknown name {u!r} returned {r!r:.60}')
        # the last question of the look is a random one (or none)
        try:
            rng.choice([self._len, self._itemize, lambda: self._by_id(0), lambda: None])()
        except Exception as e:  # noqa
            raise CaseViolation(f'{self.label}: a library operation broke: {type(e).__name__}({e})', accepted=ref[:30])
