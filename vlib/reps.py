"""Representations of legitimate inputs and alternative public spellings, shared by the monitors.

The properties quantify over VALUES (an integer priority, an identifier, a coordinate, a model); real callers hand those values over in
many representations - numpy scalars from an array, str subclasses (str-mixin enums), objects that are falsy although perfectly valid
(an empty inventory component, a collector that has not collected yet, an agent that is 'not alive', a completed model), a model with a
quiet user logger - and through several spellings of the same call (keyword / positional / defaults, deprecated aliases).  The helpers
here make the monitors draw those representations with a seeded rng; the oracle never changes: it compares by value.
"""
import enum
import logging

import numpy as np


# ---- numbers -----------------------------------------------------------------------------------------------------------
def as_int(rng, v, p=0.35):
    """The integer v, sometimes as a numpy integer scalar (what indexing an int array returns)."""
    if isinstance(v, bool) or not isinstance(v, int) or rng.random() >= p or not (-2 ** 31 < v < 2 ** 31):
        return v
    return rng.choice([np.int64, np.int64, np.intp])(v)        # (64-bit only: a 32-bit numpy scalar overflows inside numpy when it meets a large Python int)


def as_float(rng, v, p=0.3):
    """The float v, sometimes as numpy.float64 (a subclass of float) - same value."""
    if not isinstance(v, float) or rng.random() >= p:
        return v
    return np.float64(v)


# ---- strings -----------------------------------------------------------------------------------------------------------
class Label(str):
    """A plain str subclass (many code bases wrap identifiers like this)."""
    __slots__ = ()


class ShoutLabel(str):
    """A str subclass whose str() differs from its value (like str-mixin Enum members on Python >= 3.11)."""
    __slots__ = ()

    def __str__(self):
        return 'ShoutLabel.' + str.upper(self)

    def __repr__(self):
        return f'ShoutLabel({str.__repr__(self)})'


_enum_cache = {}


def enum_member(value):
    """A str-mixin Enum member whose value is `value` (str(member) is 'E.M0', member == value)."""
    if value not in _enum_cache:
        _enum_cache[value] = enum.Enum('E', {'M0': value}, type=str).M0
    return _enum_cache[value]


def as_str(rng, s, p=0.3, allow_enum=True):
    """The string s, sometimes as an instance of a str subclass with the same value (equal, same hash)."""
    if type(s) is not str or rng.random() >= p:
        return s
    k = rng.choice(['label', 'shout', 'enum'] if allow_enum and s else ['label', 'shout'])
    if k == 'label':
        return Label(s)
    if k == 'shout':
        return ShoutLabel(s)
    return enum_member(s)


# ---- identifiers that LOOK like patterns or differ from their normalised form ------------------------------------------------
# plain strings that contain shell-pattern / template metacharacters (read as patterns they would match other ids of the pool), and
# strings that unicode normalisation (NFC / NFKC) would change or merge.  They are identifiers like any other.
PATTERN_LIKE = ['{p}*', '{p}?', '{p}[12]', '{p}[1]', '{p}1', '{p}2', '{p}$$', '${p}']
UNNORMALISED = ['{p}e\u0301', '{p}\u00e9', '{p}\u00b5', '{p}\u03bc', '{p}\u00b2', '{p}\ufb01']


def odd_ids(rng, prefix, n, p=0.5, ctx=None):
    """n distinct identifiers starting with `prefix`: ordinary ones (prefix0, prefix1, ...) mixed with pattern-like / unnormalised ones."""
    pool = [t.format(p=prefix) for t in PATTERN_LIKE + UNNORMALISED]
    out = []
    for j in range(n):
        cand = rng.choice(pool) if rng.random() < p else f'{prefix}{j}'
        while cand in out:
            cand = f'{prefix}{j}' if f'{prefix}{j}' not in out else f'{prefix}{j}_{len(out)}'
        if ctx is not None and cand in pool:
            ctx.count('pattern_like_or_unnormalised_ids')
        out.append(cand)
    return out


# ---- falsy but valid user objects ------------------------------------------------------------------------------------------
def falsy_variants(base, name=None):
    """Three subclasses of a user-extensible library class: plain, container-like (len 0 -> falsy) and switch-like (bool False)."""
    name = name or base.__name__
    ns = {'__slots__': ()} if hasattr(base, '__slots__') and not hasattr(base, '__dict__') else {}
    return [type(name, (base,), dict(ns)),
            type(name + 'Sized', (base,), dict(ns, __len__=lambda self: 0)),
            type(name + 'Off', (base,), dict(ns, __bool__=lambda self: False))]


def pick_variant(rng, variants, p=0.4):
    return variants[0] if rng.random() >= p else rng.choice(variants[1:])


# ---- models ----------------------------------------------------------------------------------------------------------------
_quiet = None


def quiet_logger():
    """A user-supplied logger on which INFO is not enabled (applications usually run at WARNING)."""
    global _quiet
    if _quiet is None:
        _quiet = logging.getLogger('verif.quiet')
        _quiet.setLevel(logging.ERROR)
        _quiet.propagate = False
        _quiet.addHandler(logging.NullHandler())
    return _quiet


_debug = None


def debug_logger():
    """A user-supplied logger with DEBUG enabled (records go nowhere)."""
    global _debug
    if _debug is None:
        _debug = logging.getLogger('verif.debug')
        _debug.setLevel(logging.DEBUG)
        _debug.propagate = False
        _debug.addHandler(logging.NullHandler())
    return _debug


def make_model(rng, core, cls=None, p=0.3, **kw):
    """A model, sometimes constructed with a user-supplied logger (a quiet one, or one with DEBUG enabled) instead of the default."""
    cls = cls or core.Model
    x = rng.random()
    if x < p:
        kw['logger'] = quiet_logger() if x < p * 0.6 else debug_logger()
    return cls(**kw)


# ---- collections -------------------------------------------------------------------------------------------------------------
class Bag:
    """A re-iterable collection that has no len() (only __iter__): a perfectly good 'iterable of values'."""

    def __init__(self, items):
        self.items = list(items)

    def __iter__(self):
        return iter(self.items)

    def __repr__(self):
        return f'Bag({self.items!r})'


class MoodyBag(Bag):
    """A re-iterable collection whose FIRST iteration fails (at once or part-way) with a given exception; afterwards it works."""

    def __init__(self, items, exc, after=0):
        super().__init__(items)
        self.exc, self.after, self.armed = exc, after, True

    def __iter__(self):
        if not self.armed:
            return iter(self.items)
        self.armed = False
        return self._failing()

    def _failing(self):
        for i, v in enumerate(self.items):
            if i >= self.after:
                raise self.exc('the collection fails while it is iterated')
            yield v
        raise self.exc('the collection fails while it is iterated')


def as_collection(rng, values, p=0.5):
    """The list `values` as a list, or as another re-iterable collection with the same elements in the same order."""
    if not isinstance(values, list) or rng.random() >= p:
        return values
    k = rng.choice(['tuple', 'bag', 'keys', 'range'])
    if k == 'range' and len(values) >= 2 and all(type(v) is int for v in values):
        step = values[1] - values[0]
        if step and list(range(values[0], values[0] + step * len(values), step)) == values:
            return range(values[0], values[0] + step * len(values), step)
        k = 'tuple'
    if k == 'keys':
        try:
            d = dict.fromkeys(values)
            if len(d) == len(values):
                return d.keys()
        except TypeError:
            pass
        k = 'bag'
    if k == 'bag':
        return Bag(values)
    return tuple(values)


# ---- deprecated spellings ---------------------------------------------------------------------------------------------------------
def deprecated_call(fn, *a, **kw):
    """Calls a deprecated camelCase alias with its DeprecationWarning silenced (the alias is the same operation)."""
    import warnings
    with warnings.catch_warnings():
        warnings.simplefilter('ignore')
        return fn(*a, **kw)
