"""Failures inside histories.  The properties hold 'after any history'; real histories contain operations that FAIL - a user callback
raises, an interrupt (a BaseException that is not an Exception) passes through the library, the library itself refuses an argument - after
which the caller catches the error and goes on using the same objects.  The monitors inject such failures with a seeded rng; what is
checked afterwards is only what the property states for the operations that follow (the failed operation itself is judged only where the
property speaks about it: 'a rejected operation changes nothing', 'the error reaches the caller')."""


class Interrupt(BaseException):
    """KeyboardInterrupt-like: derives from BaseException, NOT from Exception."""


class Boom(Exception):
    pass


class BoomOS(FileNotFoundError):
    """An OSError-family error raised by user code."""


ORDINARY = [Boom, Boom, KeyError, ValueError, NotImplementedError, StopIteration, BoomOS, TypeError, IndexError, AttributeError, RuntimeError]


def pick(rng, p_interrupt=0.3):
    """An exception class to raise from user code: ordinary Exception subclasses of many kinds, or an Interrupt."""
    if rng.random() < p_interrupt:
        return Interrupt
    return rng.choice(ORDINARY)


def make(cls, *note):
    try:
        return cls(*note)
    except Exception:  # noqa - exotic constructor signatures
        return cls()


def attempt(fn, *a, **kw):
    """Runs fn; returns (result, None) or (None, exception) - catches EVERYTHING (incl. Interrupt), like an application's outer loop."""
    try:
        return fn(*a, **kw), None
    except BaseException as e:  # noqa
        return None, e
