"""C18 - decoding follows the documented lifecycle and builds exactly what is listed.

Recording fixtures (vlib/fixtures/decodables.py) append one event per lifecycle participant together with the state they see
(model identity, registered system ids, resident count); the recorded sequence is compared with the grammar instance generated
from the description:  pre_model? model (pre_sys? sys_create post_sys?)* (pre_agents? agent_create(0..n-1) post_agents?)* post_model?
"""
import copy
import json
import os
import shutil
import sys
import tempfile

from vlib.engine import CaseViolation
from vlib.util import check

PROP = 'C18'
LEVEL = 'exploration'
SHARDS = {'quick': 4, 'thorough': 16}
TIMEOUT = {'quick': 300, 'thorough': 3000}
N_DESC = {'quick': 1500, 'thorough': 120000}
N_BIG = {'quick': 8, 'thorough': 200}           # scale regime: groups of 256-700 agents; 300-900 systems with hooks (70-300 KB files)
MOD = 'vlib.fixtures.decodables'
ALT = 'vlib.fixtures.decodables_alt'
RULE = ('cases: seeded descriptions with 0-4 systems (arbitrary priorities, frequency/start/end given or defaulted, arbitrary ids), 0-3 agent '
        'groups of size 0-5, every subset of the optional hooks (pre/post model, pre/post per system, pre/post per agent group), entries resolved in one module or in two '
        'modules defining the same symbol names, models that are already complete while being decoded, hooks that decode a nested description with the same decoder object, '
        'hooks that give the model a new environment, system classes that only resolve once their pre hook ran; decoded '
        'through a dict-returning Decoder subclass and through JsonDecoder on real temporary files, the same file twice and several files in '
        'one process. Oracle: the recorded event sequence equals the expected one; every system/agent factory and every system-/agent-level '
        'hook received the decoded model; a post-system hook sees its system registered, a pre-system hook does not; agent i is created after '
        'agent i-1 was added (resident count); the post-model hook runs after all agents; the final model holds exactly the listed systems '
        '(id, priority, frequency, start, end) and agents. Non-trivial: >=2 systems, >=1 non-empty agent group and >=3 hooks; distinct by the '
        'description signature.')
ASSUMPTIONS = ['fixtures record what they are handed; the model-level hooks are not handed the model (documented) and are checked through the '
               'most recently created model', 'descriptions are well-formed (unique system ids)']
FLOORS = {'quick': {'first_timesteps_with_equal_priority_systems': 233, 'first_timesteps_of_decoded_models': 2167, 'decodes_with_same_named_decoys_in_the_running_script': 2918, 'cases_in_mode_warnings': 156, 'nested_decodes_that_failed_and_were_caught_by_the_hook': 283, 'retries_of_the_same_description_after_a_failed_decode': 750, 'decodes_failing_half_way': 750, 'same_dict_object_decoded_again': 207, 'decodes': 2000, 'events_compared': 15000, 'json_decodes': 800, 'dict_decodes': 800, 'repeat_decodes': 300,
                    'groups_of_size_zero': 200, 'descriptions_without_systems': 100, 'descriptions_without_agents': 100,
                    'hooks_run': 5000, 'agents_created': 3000, 'complete_models': 300, 'spatial_model_decodes': 300, 'big_agent_groups': 2, 'big_descriptions': 2, 'two_module_descriptions': 200, 'nested_decodes_during_decode': 200, 'late_bound_system_classes': 200,
                    'environment_replaced_by_hook': 100, 'reach:Decode.Decoder.decode': 2000, 'reach:Decode.JsonDecoder.open_file': 800},
          'thorough': {'decodes': 150000}}
EXHAUSTIVE = {}


def gen_description(rng, label):
    two_modules = rng.random() < 0.4      # the same symbol names resolved in two different modules within one description

    def mod():
        return rng.choice([MOD, ALT]) if two_modules else MOD

    d = {'model': {'name': 'RModel', 'module': mod(), 'params': {'label': label, 'seed': rng.randint(0, 99)}}, 'systems': [], 'agents': []}
    if rng.random() < 0.25:
        d['model']['params']['complete'] = True
    if rng.random() < 0.3:
        d['model']['params']['world'] = 'grid'

    def h(kind, name=None, module=None):
        hk = {'func': 'hook', 'module': module or mod(), 'params': {'kind': kind, 'name': name}}
        if kind in ('pre_sys', 'post_sys', 'pre_agents', 'post_agents') and rng.random() < 0.12:
            hk['params']['nested'] = rng.choice([True, True, 'fail'])          # decodes a sub-model with the same decoder object (which may fail)
        if kind in ('pre_agents', 'post_agents') and rng.random() < 0.12:
            hk['params']['replace_env'] = True     # gives the model a new environment
        return hk

    if rng.random() < 0.5:
        d['pre_model_decode'] = h('pre_model', label)
    if rng.random() < 0.5:
        d['post_model_decode'] = h('post_model', label)
    # (identifiers are plain text: template / pattern / format metacharacters in them mean nothing)
    ids = rng.sample(['move', 'eat', 'grow', 'collector', 'S 1', 'z', '', 'cost$$', '$system_index', 's_${system_index}', '{0}', '%s', 'a*'],
                     rng.choice([0, 1, 2, 2, 3, 4]))
    for sid in ids:
        p = {'id': sid}
        if rng.random() < 0.7:
            p['priority'] = rng.randint(-5, 5)
        if rng.random() < 0.5:
            p['frequency'] = rng.randint(1, 4)
        if rng.random() < 0.5:
            p['start'] = rng.randint(0, 6)
        if rng.random() < 0.5:
            p['end'] = rng.choice([0, 0, 1, rng.randint(5, 50), rng.randint(5, 50)])      # incl. one-shot systems (end 0)
            if p['end'] == 0:
                p['start'] = 0
        s = {'name': 'RSystem', 'module': mod(), 'params': p}
        if rng.random() < 0.15:
            # the class name only resolves once this system's pre hook has run (plug-in style late binding)
            s['name'] = 'DynSystem'
            s['pre_system_init'] = h('pre_sys', sid, module=s['module'])
            s['pre_system_init']['params']['bind'] = 'DynSystem'
        elif rng.random() < 0.5:
            s['pre_system_init'] = h('pre_sys', sid)
        if rng.random() < 0.5:
            s['post_system_init'] = h('post_sys', sid)
        d['systems'].append(s)
    for g in rng.sample(['sheep', 'wolf', 'grass', 'sheep$$', '$agent_index', 'g_${agent_index}', '{i}', 'wolf%d'], rng.choice([0, 1, 1, 2, 3])):
        a = {'name': 'RAgent', 'module': mod(), 'number': rng.choice([0, 1, 2, 3, 5]), 'params': {'group': g}}
        if rng.random() < 0.5:
            a['pre_agent_init'] = h('pre_agents', g)
        if rng.random() < 0.5:
            a['post_agent_init'] = h('post_agents', g)
        d['agents'].append(a)
    return d


def expected_events(d):
    ev = []
    if 'pre_model_decode' in d:
        ev.append(('pre_model', d['model']['params']['label'], None, None, None, 'nomodel', d['pre_model_decode']['module']))
    ev.append(('model_create', d['model']['params']['label'], None, [], 0, 'nomodel', d['model']['module']))
    reg = []
    for s in d['systems']:
        sid = s['params']['id']
        if 'pre_system_init' in s:
            ev.append(('pre_sys', sid, None, sorted(reg), 0, 'model', s['pre_system_init']['module']))
        ev.append(('sys_create', sid, None, sorted(reg), 0, 'model', s['module']))
        reg.append(sid)
        if 'post_system_init' in s:
            ev.append(('post_sys', sid, None, sorted(reg), 0, 'model', s['post_system_init']['module']))
    n = 0
    for a in d['agents']:
        g = a['params']['group']
        if 'pre_agent_init' in a:
            ev.append(('pre_agents', g, None, sorted(reg), n, 'model', a['pre_agent_init']['module']))
            if a['pre_agent_init']['params'].get('replace_env'):
                n = 0
        for i in range(a['number']):
            ev.append(('agent_create', g, i, sorted(reg), n, 'model', a['module']))
            n += 1
        if 'post_agent_init' in a:
            ev.append(('post_agents', g, None, sorted(reg), n, 'model', a['post_agent_init']['module']))
            if a['post_agent_init']['params'].get('replace_env'):
                n = 0
    if 'post_model_decode' in d:
        ev.append(('post_model', d['model']['params']['label'], None, sorted(reg), n, 'nomodel', d['post_model_decode']['module']))
    return ev


DECOYS_USED = []


def plant_decoys():
    """The running script (`__main__`) happens to define things with the same names as the classes and hooks that the descriptions
    list WITH their modules: a description says which module it means, so none of these may ever be used."""
    import __main__ as script
    if getattr(script, '_verif_decoys', False):
        return

    def decoy(name):
        def used(*a, **kw):
            DECOYS_USED.append(name)
            raise AssertionError(f'{name} of the running script was used instead of the listed one')
        return type(name, (), {'decode': staticmethod(used), '__call__': used, '__init__': lambda self, *a, **kw: None}) if name != 'hook' else used
    for name in ('RModel', 'RSystem', 'RAgent', 'hook', 'FlakyAgent', 'FailingSystem', 'DynSystem'):
        if not hasattr(script, name):
            setattr(script, name, decoy(name))
    script._verif_decoys = True


def decode_and_check(ctx, decoder, arg, d, how, inner=None, inner_fail=None):
    plant_decoys()
    del DECOYS_USED[:]
    from vlib.fixtures import decodables as fx
    import ECAgent.Core as core
    from vlib.fixtures import decodables_alt as fx2
    from vlib.fixtures.decodables_state import SHARED
    del fx.EVENTS[:]
    fx.CURRENT[0] = None
    fx.DynSystem = fx2.DynSystem = None
    SHARED['decoder'] = decoder
    SHARED['inner'] = inner
    SHARED['inner_fail'] = inner_fail
    SHARED['nested_runs'] = 0
    SHARED['nested_failures'] = 0
    try:
        model = decoder.decode(arg)
    finally:
        if DECOYS_USED:
            raise CaseViolation(f'the description lists {DECOYS_USED[0]} with its module, but the object of that name in the running script (__main__) '
                                f'was used', how=how)
    ctx.count('decodes_with_same_named_decoys_in_the_running_script')
    ctx.count('nested_decodes_during_decode', SHARED['nested_runs'])
    ctx.count('nested_decodes_that_failed_and_were_caught_by_the_hook', SHARED['nested_failures'])
    ctx.count('late_bound_system_classes', sum(1 for s_ in d['systems'] if s_['name'] == 'DynSystem'))
    got = list(fx.EVENTS)
    exp = expected_events(d)
    ctx.count('decodes')
    ctx.ev()
    detail = dict(how=how, description={k: (v if k in ('model',) else ([{kk: vv for kk, vv in x.items() if kk != 'params'} for x in v]
                                                                         if isinstance(v, list) else 'hook')) for k, v in d.items()})
    short = [(e['kind'], e['name'], e['index'], e['module'].rsplit('.', 1)[-1]) for e in got]
    want = [(k, n, i, mo.rsplit('.', 1)[-1]) for (k, n, i, _, _, _, mo) in exp]
    if short != want:
        raise CaseViolation('lifecycle events differ from the documented order (kind, name, index, module that was invoked)', expected=want,
                            observed=short, **detail)
    mid = id(model)
    for e, (k, n, i, reg, nres, needs, _mo) in zip(got, exp):
        ctx.count('events_compared')
        if k == 'pre_model':
            check(e['model'] is None, 'the pre-model hook ran after a model had already been created', **detail)
            continue
        if needs == 'model':
            check(e['given_model'] == mid, f'{k}({n}) was not handed the decoded model', event=e, **detail)
        check(e['model'] == mid, f'{k}({n}) saw a different model than the one returned', event=e, **detail)
        check(e['registered'] == reg, f'{k}({n}, {i}) saw registered systems {e["registered"]}, expected {reg}', event=e, **detail)
        check(e['residents'] == nres, f'{k}({n}, {i}) saw {e["residents"]} agents in the environment, expected {nres}', event=e, **detail)
        if k.startswith('pre_') or k.startswith('post_'):
            ctx.count('hooks_run')
        if k == 'agent_create':
            ctx.count('agents_created')
    # the resulting model
    check(type(model).__name__ == 'RModel' and type(model).__module__ == d['model']['module'] and model.label == d['model']['params']['label'],
          'decode returned the wrong model', **detail)
    if d['model']['params'].get('complete'):
        ctx.count('complete_models')
    if any(x != d['model']['module'] for x in [s['module'] for s in d['systems']] + [a['module'] for a in d['agents']]):
        ctx.count('two_module_descriptions')
    want_sys = {s['params']['id']: s['params'] for s in d['systems']}
    have = model.systems.systems
    check(sorted(have.keys()) == sorted(want_sys.keys()), f'model has systems {sorted(have)}, description lists {sorted(want_sys)}', **detail)
    for sid, p in want_sys.items():
        s = have[sid]
        want = (p.get('priority', 0), p.get('frequency', 1), p.get('start', 0), p.get('end', sys.maxsize))
        check((s.priority, s.frequency, s.start, s.end) == want, f'system {sid!r} scheduling {(s.priority, s.frequency, s.start, s.end)} != declared {want}', **detail)
        check(s.model is model, f'system {sid!r} does not belong to the decoded model', **detail)
    want_agents = []
    for a in d['agents']:          # agents live in the environment the model had when they were added
        if 'pre_agent_init' in a and a['pre_agent_init']['params'].get('replace_env'):
            want_agents = []
            ctx.count('environment_replaced_by_hook')
        want_agents += [f"{a['params']['group']}_{i}" for i in range(a['number'])]
        if 'post_agent_init' in a and a['post_agent_init']['params'].get('replace_env'):
            want_agents = []
            ctx.count('environment_replaced_by_hook')
    got_agents = [a.id for a in model.environment]
    check(got_agents == want_agents, f'environment holds {got_agents}, expected {want_agents}', **detail)
    check(all(a.model is model for a in model.environment), 'an agent does not belong to the decoded model', **detail)
    replaced = any(a.get(k, {}).get('params', {}).get('replace_env') for a in d['agents'] for k in ('pre_agent_init', 'post_agent_init'))
    if d['model']['params'].get('world') == 'grid' and not replaced:
        import ECAgent.Environments as envs
        ctx.count('spatial_model_decodes')
        lost = [a.id for a in model.environment if envs.PositionComponent not in a.components]
        check(not lost, f'{len(lost)} agents were not added through the environment\'s own add_agent (no position in a grid world)', first=lost[:5], **detail)
    if model.is_running() and model.systems.timestep == 0:
        # the listed systems were registered one after the other, in listing order: the first timestep of the decoded model runs those that
        # are due in descending declared priority, listing order among equals
        from vlib.fixtures.decodables_state import EXECUTED
        due = [(-(s_['params'].get('priority', 0)), j_, s_['params']['id']) for j_, s_ in enumerate(d['systems'])
               if s_['params'].get('start', 0) <= 0 <= s_['params'].get('end', sys.maxsize) and (0 - s_['params'].get('start', 0)) % s_['params'].get('frequency', 1) == 0]
        del EXECUTED[:]
        model.execute()
        ran = [x_ for x_ in EXECUTED if x_ in want_sys]
        del EXECUTED[:]
        ctx.count('first_timesteps_of_decoded_models')
        if len({p_ for p_, _, _ in due}) < len(due):
            ctx.count('first_timesteps_with_equal_priority_systems')
        check(ran == [sid_ for _, _, sid_ in sorted(due)], f'first timestep of the decoded model ran {ran}, the description lists (descending priority, listing '
              f'order among equals) {[sid_ for _, _, sid_ in sorted(due)]}', **detail)
    return model


def case_flaky(ctx, case):
    """A decode that FAILS half-way - the constructor of the j-th agent of a group raises (StopIteration from an iterator that ran dry,
    an ordinary error, a KeyboardInterrupt-like) - must let the error out (no silently short model); the caller then decodes THE SAME
    description object again (the cause is gone): that decode is a decode of its own, with the full documented lifecycle."""
    import ECAgent.Decode as decode
    from vlib.fixtures import decodables as fx, decodables_alt  # noqa
    from vlib.fixtures.decodables_state import FLAKY
    from vlib import faults
    rng = ctx.rng('flaky', case['i'])

    class DictDecoder(decode.Decoder):
        def open_file(self, d):
            return d

    for rep_ in range(6):
        d = gen_description(rng, f'F{case["i"]}_{rep_}')
        for hk in [d.get('pre_model_decode'), d.get('post_model_decode')] + [s_.get(k_) for s_ in d['systems'] for k_ in ('pre_system_init', 'post_system_init')] \
                + [a_.get(k_) for a_ in d['agents'] for k_ in ('pre_agent_init', 'post_agent_init')]:
            if hk:
                hk['params'].pop('nested', None)
        n = rng.randint(2, 6)
        grp = {'name': 'FlakyAgent', 'module': MOD, 'number': n, 'params': {'group': 'flaky', 'fail_at': rng.randrange(n),
                                                                             'exc': rng.choice(['StopIteration', 'StopIteration', 'Boom', 'Interrupt'])}}
        if rng.random() < 0.5:
            grp['post_agent_init'] = {'func': 'hook', 'module': MOD, 'params': {'kind': 'post_agents', 'name': 'flaky'}}
        d['agents'].insert(rng.randint(0, len(d['agents'])), grp)
        live = copy.deepcopy(d)
        dec = DictDecoder()
        FLAKY['armed'] = True
        try:
            _, err = faults.attempt(dec.decode, live)
        finally:
            FLAKY['armed'] = False
        ctx.count('decodes_failing_half_way')
        if err is None:
            raise CaseViolation(f'decode() returned a model although the constructor of agent #{grp["params"]["fail_at"]} of a group of {n} raised '
                                f'{grp["params"]["exc"]}: the model cannot contain exactly the listed agents', group=grp)
        decode_and_check(ctx, dec if rng.random() < 0.7 else DictDecoder(), live, d,
                         'dict Decoder: second decode of the same description object after a decode that failed half-way')
        ctx.count('retries_of_the_same_description_after_a_failed_decode')
    ctx.distinct(('flaky', case['i']))


def case_desc(ctx, case):
    import ECAgent.Decode as decode
    from vlib.fixtures import decodables, decodables_alt  # noqa - must be in sys.modules for the decoder
    rng = ctx.rng('desc', case['i'])

    class DictDecoder(decode.Decoder):
        def open_file(self, d):
            return d

    n_files = rng.choice([1, 1, 2, 3])
    descs = [gen_description(rng, f'L{case["i"]}_{k}') for k in range(n_files)]
    tmp = tempfile.mkdtemp(prefix='c18-')
    models = []
    try:
        paths = []
        for k, d in enumerate(descs):
            pth = os.path.join(tmp, f'model{k}.json')
            with open(pth, 'w') as f:
                json.dump(d, f)
            paths.append(pth)
        inner_desc = {'model': {'name': 'RModel', 'module': MOD, 'params': {'label': 'inner'}},
                      'systems': [{'name': 'RSystem', 'module': MOD, 'params': {'id': 'inner_sys'},
                                   'post_system_init': {'func': 'hook', 'module': MOD, 'params': {'kind': 'post_sys', 'name': 'inner_sys'}}}],
                      'agents': [{'name': 'RAgent', 'module': MOD, 'number': 2, 'params': {'group': 'inner'}}]}
        inner_path = os.path.join(tmp, 'inner.json')
        with open(inner_path, 'w') as f:
            json.dump(inner_desc, f)
        inner_fail_desc = copy.deepcopy(inner_desc)
        inner_fail_desc['systems'].append({'name': 'FailingSystem', 'module': MOD, 'params': {'id': 'never'}})
        inner_fail_path = os.path.join(tmp, 'inner_fail.json')
        with open(inner_fail_path, 'w') as f:
            json.dump(inner_fail_desc, f)
        order = [(k, how) for k in range(n_files) for how in rng.sample(['json', 'dict', 'json', 'samedict', 'samedict'], rng.randint(1, 4))]
        rng.shuffle(order)
        seen = set()
        live = {}
        for k, how in order:
            d = descs[k]
            if how == 'json':
                m = decode_and_check(ctx, decode.JsonDecoder(), paths[k], d, 'JsonDecoder', inner=inner_path, inner_fail=inner_fail_path)
                ctx.count('json_decodes')
            elif how == 'samedict':
                # ONE description dictionary object per model, kept by the caller and decoded again and again (each decode writes the model
                # and the agent indices into it): every decode is a decode of its own
                if k not in live:
                    live[k] = copy.deepcopy(d)
                else:
                    ctx.count('same_dict_object_decoded_again')
                m = decode_and_check(ctx, DictDecoder(), live[k], d, 'dict Decoder, the same description object as in an earlier decode', inner=inner_desc, inner_fail=inner_fail_desc)
                ctx.count('dict_decodes')
            else:
                m = decode_and_check(ctx, DictDecoder(), copy.deepcopy(d), d, 'dict Decoder', inner=inner_desc, inner_fail=inner_fail_desc)
                ctx.count('dict_decodes')
            if k in seen:
                ctx.count('repeat_decodes')
            seen.add(k)
            check(all(m is not o for o in models), 'two decodes returned the same model object')
            models.append(m)
        for d in descs:
            if not d['systems']:
                ctx.count('descriptions_without_systems')
            if not d['agents']:
                ctx.count('descriptions_without_agents')
            ctx.count('groups_of_size_zero', sum(1 for a in d['agents'] if a['number'] == 0))
            hooks = sum(1 for k in ('pre_model_decode', 'post_model_decode') if k in d) + \
                sum(1 for s in d['systems'] for k in ('pre_system_init', 'post_system_init') if k in s) + \
                sum(1 for a in d['agents'] for k in ('pre_agent_init', 'post_agent_init') if k in a)
            if len(d['systems']) >= 2 and any(a['number'] for a in d['agents']) and hooks >= 3:
                ctx.distinct(json.dumps(d, sort_keys=True))
    finally:
        shutil.rmtree(tmp, ignore_errors=True)
    if case['i'] < 2:
        d = descs[0]
        ctx.sample({'kind': 'description', 'i': case['i'], 'systems': [s['params'] for s in d['systems']],
                    'agents': [(a['params']['group'], a['number']) for a in d['agents']],
                    'events': [(k, n, i) for (k, n, i, _, _, _, _) in expected_events(d)][:14]})



def case_big(ctx, case):
    """Scale regime: agent groups of 256-700 agents (in plain and grid-world models), descriptions with hundreds of systems and hooks (JSON
    files of 70-300 KB) decoded two and three times from the same unchanged file."""
    import ECAgent.Decode as decode
    from vlib.fixtures import decodables, decodables_alt  # noqa
    rng = ctx.rng('big', case['i'])

    def h(kind, name):
        return {'func': 'hook', 'module': MOD, 'params': {'kind': kind, 'name': name}}

    d = {'model': {'name': 'RModel', 'module': MOD, 'params': {'label': f'big{case["i"]}'}}, 'systems': [], 'agents': []}
    if case['i'] % 2 == 0:
        d['model']['params']['world'] = rng.choice(['grid', 'plain'])
        for g, nn in (('herd', rng.choice([256, 300, 700])), ('few', 3), ('flock', rng.choice([255, 257, 512]))):
            a = {'name': 'RAgent', 'module': MOD, 'number': nn, 'params': {'group': g}}
            if rng.random() < 0.6:
                a['post_agent_init'] = h('post_agents', g)
            d['agents'].append(a)
        d['systems'].append({'name': 'RSystem', 'module': MOD, 'params': {'id': 'only'}, 'post_system_init': h('post_sys', 'only')})
        ctx.count('big_agent_groups')
    else:
        for j in range(rng.choice([300, 450, 900])):
            sdesc = {'name': 'RSystem', 'module': MOD, 'params': {'id': f'system_number_{j}', 'priority': rng.randint(-9, 9), 'frequency': 1 + j % 5}}
            sdesc['pre_system_init'] = h('pre_sys', f'system_number_{j}')
            if j % 2:
                sdesc['post_system_init'] = h('post_sys', f'system_number_{j}')
            d['systems'].append(sdesc)
        d['agents'].append({'name': 'RAgent', 'module': MOD, 'number': 4, 'params': {'group': 'g'}, 'pre_agent_init': h('pre_agents', 'g')})
        ctx.count('big_descriptions')
    tmp = tempfile.mkdtemp(prefix='c18b-')
    try:
        pth = os.path.join(tmp, 'big.json')
        with open(pth, 'w') as f:
            json.dump(d, f)
        ctx.count('big_json_bytes', os.path.getsize(pth))
        dec = decode.JsonDecoder()
        models = []
        for k in range(3):
            models.append(decode_and_check(ctx, dec if k < 2 else decode.JsonDecoder(), pth, d, f'JsonDecoder, decode #{k + 1} of a large file'))
            ctx.count('json_decodes')
        check(len({id(m_) for m_ in models}) == 3, 'repeated decodes returned the same model')
    finally:
        shutil.rmtree(tmp, ignore_errors=True)
    ctx.distinct(('big', case['i']))


def run_case(ctx, case):
    {'big': case_big, 'flaky': case_flaky}.get(case.get('kind'), case_desc)(ctx, case)


def run(ctx):
    for i in range(N_DESC[ctx.tier]):
        if ctx.mine(i) and not ctx.full():
            ctx.run_case({'kind': 'desc', 'i': i}, run_case)
    for i in range(N_BIG[ctx.tier]):
        if ctx.mine(i) and not ctx.full():
            ctx.run_case({'kind': 'big', 'i': i}, run_case)
    for i in range(N_DESC[ctx.tier] // 4):
        if ctx.mine(i) and not ctx.full():
            ctx.run_case({'kind': 'flaky', 'i': i}, run_case)


def replay(ctx, case):
    ctx.run_case(case, run_case)
