"""C14 - a parameter list builds the exact Cartesian product, once each.

build() vs a nested-loop reference product across declaration histories (constructor / incremental, add / remove,
invalid ops).  Order (first-declared slowest), multiplicity (repeated values kept), keys, repeatability, independent dicts,
unchanged declaration.
"""
from vlib.engine import CaseViolation
from vlib.util import check, expect_raises

PROP = 'C14'
LEVEL = 'exploration'
SHARDS = {'quick': 4, 'thorough': 16}
TIMEOUT = {'quick': 300, 'thorough': 3000}
N_HIST = {'quick': 3000, 'thorough': 250000}
N_BIG = {'quick': 12, 'thorough': 300}          # scale regime: products > 4096 combinations, > 1000 parameters
CAP = 2000
RULE = ('cases: seeded declaration histories: 0-5 parameters declared through the constructor dict and/or add_parameter, interleaved with '
        'remove_parameter and invalid ops (non-str names 5/None/b"x"/("a",)/1.5, duplicate names, unknown removals); values: int/float/'
        'bool/None scalars, strings (incl. "" and multi-char), list/tuple/range/1-D numpy arrays of length 0, 1, n with repeated '
        'values, nested lists as elements; build() after every op. Oracle: nested-loop product with the first-declared parameter '
        'slowest, every element kept (== and identity for container elements), each dict holding exactly the declared names; two '
        'builds equal but made of distinct dict objects; mutating a result changes nothing; invalid ops raise AttributeError / '
        'KeyError and leave build() unchanged. Non-trivial history: product of >=2 factors of length >=2 with a repeated value or a '
        'string/scalar factor, plus >=1 rejected op; distinct by (declaration signature, op trace). Products capped at 2000 in the histories; a scale regime builds products of 4 097-10 000 combinations and declarations of 1 100-2 100 parameters.')
ASSUMPTIONS = ['collections are re-iterable (no one-shot iterators)', 'values compare with == (no NaN)']
FLOORS = {'quick': {'operations_after_which_nobody_built': 2038, 'same_object_again_factors': 448, 'cases_in_mode_debuglog': 251, 'lists_replaced_by_a_copy_of_themselves': 137, 'builds_interrupted_by_a_failing_collection': 287, 'edited_collections_declared_again': 380, 'bag_factors': 215, 'builds_compared': 10000, 'empty_factor_products': 500, 'no_parameter_products': 100, 'string_factors': 800,
                    'scalar_factors': 800, 'repeated_value_factors': 600, 'numpy_factors': 600, 'range_factors': 600,
                    'rejected_nonstr_name': 1000, 'rejected_duplicate': 760, 'rejected_unknown_removal': 1000,
                    'sibling_list_checks': 500, 'big_builds': 6, 'declarations_with_1000_plus_parameters': 3, 'constructor_declarations': 709, 'rejected_constructor': 100, 'reach:Batching.ParameterList.build': 10000},
          'thorough': {'builds_compared': 1000000}}
EXHAUSTIVE = {}


def gen_value(rng):
    import numpy as np
    k = rng.random()
    if k < 0.18:
        return rng.choice([0, 1, -7, 3.5, True, False, None, 10 ** 20]), 'scalar'
    if k < 0.33:
        return rng.choice(['', 'a', 'abc', 'hello world', '12']), 'string'
    n = rng.choice([0, 1, 2, 2, 2, 3, 3, 4])
    base = [rng.choice([0, 1, 2, 'x', 'yz', None, 2.5, True]) for _ in range(n)]
    if n >= 2 and rng.random() < 0.35:
        base[1] = base[0]                   # repeated value
    if n and rng.random() < 0.15:
        base[0] = [1, 2]                    # a nested list stays one value
    k = rng.random()
    if k < 0.34:
        return list(base), 'list'
    if k < 0.42:
        from vlib import reps
        return reps.Bag(base), 'bag'            # a re-iterable collection without len()
    if k < 0.6:
        return tuple(base), 'tuple'
    if k < 0.8:
        return range(rng.randint(-1, 2), rng.randint(-1, 2) + n), 'range'
    return np.array([rng.choice([1, 2, 2, 5]) for _ in range(n)], dtype=rng.choice([int, float])), 'numpy'


def factor(value):
    """Reference: which single values does this declaration stand for?"""
    import numpy as np
    if isinstance(value, str):
        return [value]
    if isinstance(value, (list, tuple, range)):
        return list(value)
    if type(value).__name__ in ('Bag', 'MoodyBag'):
        return list(value.items)
    if isinstance(value, np.ndarray):
        return [value[i] for i in range(len(value))]
    return [value]


def product(decl):
    out = [[]]
    for name, value in decl:
        vals = factor(value)
        out = [row + [(name, v)] for row in out for v in vals]
    return [dict(row) for row in out]


BY_VALUE = [False]      # set while a list under test is a copy of the declared one: nested values are then equal objects, not the same


def same_value(a, b):
    if isinstance(a, (list, dict)) or isinstance(b, (list, dict)):
        return (a is b) or (BY_VALUE[0] and type(a) is type(b) and a == b)
    try:
        return type(a) == type(b) and bool(a == b)
    except Exception:  # noqa
        return False


LOOK = {'p': 1.0, 'rng': None}      # how often a list is built (looked at) after an ordinary add / remove: set per history


def compare(ctx, pl, decl, what):
    if LOOK['p'] < 1.0 and what.startswith('after (') and LOOK['rng'].random() >= LOOK['p']:
        ctx.count('operations_after_which_nobody_built')
        return None
    exp = product(decl)
    got = pl.build()
    ctx.ev()
    ctx.count('builds_compared')
    names = [n for n, _ in decl]
    ok = isinstance(got, list) and len(got) == len(exp)
    if ok:
        for g, e in zip(got, exp):
            if not (isinstance(g, dict) and set(g.keys()) == set(names) and all(same_value(g[n], e[n]) for n in names)):
                ok = False
                break
    if not ok:
        raise CaseViolation(f'{what}: build() differs from the Cartesian product (first-declared slowest)',
                            declaration=[(n, repr(v)) for n, v in decl], expected=exp[:12], observed=got[:12] if isinstance(got, list) else got,
                            n_expected=len(exp), n_observed=len(got) if isinstance(got, list) else None)
    if not decl:
        ctx.count('no_parameter_products')
        check(got == [{}], 'no parameters must build [{}]', observed=got)
    if any(len(factor(v)) == 0 for _, v in decl):
        ctx.count('empty_factor_products')
        check(got == [], 'an empty collection must yield no combination', observed=got)
    return got


def case_history(ctx, case):
    import ECAgent.Batching as batching
    BY_VALUE[0] = False
    rng = ctx.rng('hist', case['i'])
    LOOK['p'], LOOK['rng'] = rng.choice([1.0, 1.0, 0.5, 0.2]), rng
    decl = []         # [(name, value)] in declaration order
    trace = []
    flags = set()
    names_pool = ['a', 'b', 'c', 'size', 'n_agents', 'x y', '', 'x,y', 'a, b', '\u00b5', '\u03bc', 'x\u00b2', 'x2', 'c*']       # incl. names with commas, names that NFKC would merge

    def new_name():
        free = [n for n in names_pool if n not in [d[0] for d in decl]]
        return rng.choice(free) if free else None

    def size_ok(extra):
        n = 1
        for _, v in decl + extra:
            n *= len(factor(v))
        return n <= CAP

    # constructor
    if rng.random() < 0.5:
        init = {}
        for _ in range(rng.randint(0, 3)):
            n = new_name()
            v, kind = gen_value(rng)
            if n is not None and n not in init and size_ok([(n, v)]):
                init[n] = v
                decl.append((n, v))
                ctx.count(kind + '_factors')
        keep = dict(init)
        pl = batching.ParameterList(init)
        sibling = batching.ParameterList(init)       # a second list declared from the very same dict
        sibling_decl = list(decl)
        ctx.count('constructor_declarations')
        trace.append(('ctor', list(init)))
        check(init == keep or all(init[k] is keep[k] for k in keep), 'constructor changed the caller\'s dict')
        if rng.random() < 0.3:
            bad = dict(init)
            bad[rng.choice([5, None, b'x', ('a',)])] = 1
            expect_raises(AttributeError, 'constructor with a non-str key', batching.ParameterList, bad, exact=True)
            ctx.count('rejected_constructor')
    else:
        pl = batching.ParameterList() if rng.random() < 0.5 else batching.ParameterList(None)
        trace.append(('ctor', None))
        init = keep = sibling = sibling_decl = None
    compare(ctx, pl, decl, 'after construction')
    for _ in range(rng.randint(3, 10)):
        x = rng.random()
        if x < 0.55:
            n = new_name()
            v, kind = gen_value(rng)
            shared_ = [v0 for _, v0 in decl if len(factor(v0)) >= 2]
            if shared_ and rng.random() < 0.2:
                # the very same collection object declared for a second parameter (width and height both range over `sizes`)
                v, kind = rng.choice(shared_), 'same_object_again'
            if n is None or not size_ok([(n, v)]):
                continue
            pl.add_parameter(n, v)
            decl.append((n, v))
            ctx.count(kind + '_factors')
            vals = factor(v)
            if len(vals) >= 2 and any(same_value(vals[i], vals[j]) for i in range(len(vals)) for j in range(i)):
                ctx.count('repeated_value_factors'); flags.add('rep')
            if kind in ('string', 'scalar'):
                flags.add('single')
            trace.append(('add', n, kind, repr(v)[:40]))
        elif x < 0.60 and new_name() is not None:
            # a declared collection whose iteration FAILS during one build (at once or part-way; TypeError, other exceptions, a
            # KeyboardInterrupt-like): the caller catches whatever comes out and carries on - the list still accepts valid operations and
            # the next build is the full product of what is declared
            from vlib import faults, reps
            n = new_name()
            items = [rng.choice([0, 1, 2, 'x', 2.5]) for _ in range(rng.randint(1, 3))]
            cls = rng.choice([TypeError, TypeError, faults.Interrupt, faults.Boom, KeyError, StopIteration])
            moody = reps.MoodyBag(items, cls, after=rng.randint(0, len(items)))
            if not size_ok([(n, moody)]):
                continue
            pl.add_parameter(n, moody)
            decl.append((n, moody))
            _, err = faults.attempt(pl.build)
            ctx.count('builds_interrupted_by_a_failing_collection')
            ctx.count('bag_factors')
            trace.append(('add-moody', n, cls.__name__, type(err).__name__))
            if rng.random() < 0.5 and new_name() is not None:
                n2 = new_name()
                pl.add_parameter(n2, 'after the failure')          # a valid operation right after the interrupted build
                decl.append((n2, 'after the failure'))
        elif x < 0.62:
            # the list is replaced by a deep copy or a pickle round trip of itself (a saved experiment set-up that is restored later)
            import copy as _copy
            import pickle as _pickle
            how = rng.choice(['deepcopy', 'pickle'])
            try:
                pl = _copy.deepcopy(pl) if how == 'deepcopy' else _pickle.loads(_pickle.dumps(pl))
                BY_VALUE[0] = True
                ctx.count('lists_replaced_by_a_copy_of_themselves')
                trace.append((how,))
            except (TypeError, _pickle.PicklingError, AttributeError):
                continue            # a declared value that cannot be pickled: not the library's business
        elif x < 0.65 and decl:
            n = rng.choice(decl)[0]
            pl.remove_parameter(n)
            decl = [d for d in decl if d[0] != n]
            trace.append(('remove', n))
        elif x < 0.76:
            bad = rng.choice([5, None, b'x', ('a',), 1.5])
            expect_raises(AttributeError, f'add_parameter with name {bad!r}', pl.add_parameter, bad, [1, 2], exact=True)
            ctx.count('rejected_nonstr_name'); flags.add('rej')
            trace.append(('add!', repr(bad)))
        elif x < 0.86 and decl:
            n = rng.choice(decl)[0]
            expect_raises(KeyError, f'add_parameter with taken name {n!r}', pl.add_parameter, n, ['other'], exact=True)
            ctx.count('rejected_duplicate'); flags.add('rej')
            trace.append(('add-dup!', n))
        else:
            n = rng.choice(['zzz', 'nobody'] + [p for p in names_pool if p not in [d[0] for d in decl]])
            expect_raises(KeyError, f'remove_parameter of unknown {n!r}', pl.remove_parameter, n, exact=True)
            ctx.count('rejected_unknown_removal'); flags.add('rej')
            trace.append(('remove!', n))
        g1 = compare(ctx, pl, decl, f'after {trace[-1]}')
        if g1 is None:
            continue                # nobody built the list after this operation
        g2 = compare(ctx, pl, decl, 'second build')
        check(g1 is not g2, 'two builds returned the same list object')
        seen = set()
        for d in g1 + g2:
            if id(d) in seen:
                raise CaseViolation('build() returned the same dict object more than once (combinations are not independent)',
                                    declaration=[(n, repr(v)) for n, v in decl])
            seen.add(id(d))
        if g1:
            victim = rng.choice(g1)
            victim['__junk__'] = 1
            for k in list(victim):
                victim[k] = 'mutated'
            del g1[:]
            compare(ctx, pl, decl, 'after mutating a returned combination')
    import numpy as _np
    edited_obj = None
    # (an object declared for two parameters is left alone here: after an in-place edit only ONE of them is re-declared, and whether the
    #  other declaration follows the edit - kept by reference - or not - copied at declaration time - is not the property's business)
    editable = [(n, v) for n, v in decl if isinstance(v, (list, _np.ndarray)) and len(v) >= 1 and not (isinstance(v, list) and any(isinstance(x, list) for x in v))
                and sum(1 for _, v2 in decl if v2 is v) == 1]
    if editable and rng.random() < 0.6:
        # the caller edits, in place, a collection object it had declared (and built with), and then declares THE SAME OBJECT again under
        # the same name - on a brand-new list, and on the old list after removing the name: a new declaration stands for what the object
        # holds now
        n, v = rng.choice(editable)
        edited_obj = v
        if isinstance(v, list):
            v.append(rng.choice(['late', 99, None]))
            if len(v) > 2 and rng.random() < 0.5:
                del v[0]
        else:
            v *= 10
            v += 1
        if size_ok([]):
            pl2 = batching.ParameterList()
            for n_, v_ in decl:
                pl2.add_parameter(n_, v_)
            compare(ctx, pl2, decl, f'a new ParameterList declared with a collection object ({n!r}) that was edited in place since another list was built with it')
            pl.remove_parameter(n)
            pl.add_parameter(n, v)
            decl = [d for d in decl if d[0] != n] + [(n, v)]
            compare(ctx, pl, decl, f'after removing {n!r} and declaring the same (edited) object again')
            ctx.count('edited_collections_declared_again')
            trace.append(('edit+redeclare', n))
    if sibling is not None:
        # operations on one list must not reach the caller's dict nor another list declared from it
        ctx.count('sibling_list_checks')
        check(list(init.keys()) == list(keep.keys()) and all(init[k_] is keep[k_] for k_ in keep),
              'operations on a ParameterList changed the dict it was constructed from', before=list(keep), after=list(init), trace=trace[-8:])
        if not any(v_ is edited_obj for _, v_ in sibling_decl):      # (whether an OLD declaration follows later in-place edits is not prescribed)
            compare(ctx, sibling, sibling_decl, 'a second ParameterList declared from the same dict, after operations on the first')
    big = [len(factor(v)) for _, v in decl]
    if sum(1 for b in big if b >= 2) >= 2 and ('rep' in flags or 'single' in flags) and 'rej' in flags:
        ctx.distinct((tuple((n, repr(v)) for n, v in decl), tuple(t[0] for t in trace)))
    if case['i'] < 3:
        ctx.sample({'kind': 'history', 'i': case['i'], 'trace': trace[:8], 'final_declaration': [(n, repr(v)) for n, v in decl],
                    'combinations': len(product(decl)), 'first': product(decl)[:3]})



def case_big(ctx, case):
    """Scale regime: products of 5 000-40 000 combinations, and declarations with more than a thousand parameters (most of them single
    values)."""
    import ECAgent.Batching as batching
    rng = ctx.rng('big', case['i'])
    if case['i'] % 2 == 0:
        lens = rng.choice([[100, 100], [5, 90, 12], [70, 70], [3, 41, 37], [2, 2, 2, 2, 2, 2, 2, 2, 2, 2, 2, 2, 2], [4097], [1, 5000, 1]])
        decl = []
        for j, L in enumerate(lens):
            vals = [rng.choice([j * 1000 + i, f'v{j}_{i}']) for i in range(L)]
            if L >= 3 and rng.random() < 0.5:
                vals[1] = vals[0]
            decl.append((f'p{j}', rng.choice([vals, tuple(vals)]) if L > 1 else vals[0]))
        if rng.random() < 0.5:
            decl.insert(rng.randrange(len(decl) + 1), ('label', 'run-a'))
    else:
        k = rng.choice([1100, 1500, 2100])
        decl = [(f'q{j}', j) for j in range(k)]
        for j in rng.sample(range(k), 3):
            decl[j] = (f'q{j}', [j, -j, j + 0.5][:rng.randint(2, 3)])
        ctx.count('declarations_with_1000_plus_parameters')
    if rng.random() < 0.5:
        pl = batching.ParameterList(dict(decl))
    else:
        pl = batching.ParameterList()
        for name, v in decl:
            pl.add_parameter(name, v)
    got = compare(ctx, pl, decl, f'large declaration ({len(decl)} parameters)')
    check(len({id(d) for d in got}) == len(got), 'large build returned shared dict objects')
    ctx.count('big_builds')
    ctx.count('big_combinations', len(got))
    ctx.distinct(('big', len(decl), len(got), case['i']))


def run_case(ctx, case):
    (case_big if case.get('kind') == 'big' else case_history)(ctx, case)


def run(ctx):
    for i in range(N_HIST[ctx.tier]):
        if ctx.mine(i) and not ctx.full():
            ctx.run_case({'kind': 'hist', 'i': i}, run_case)
    for i in range(N_BIG[ctx.tier]):
        if ctx.mine(i) and not ctx.full():
            ctx.run_case({'kind': 'big', 'i': i}, run_case)


def replay(ctx, case):
    ctx.run_case(case, run_case)
