"""C10 - neighbourhood queries return exactly the metric ball clipped to the grid (exhaustive small scope).

Every shape with extents 0..N x every centre cell x radius 0..diameter+1 x {Moore, von Neumann} x centre in/out x
answer as ids / tuples x centre given as id / tuple / PositionComponent (integer and fractional) x specific / generic entry.
Oracle: brute-force filter over the position table in table order.
"""
import itertools

from vlib.engine import CaseViolation
from vlib.util import check, expect_raises

PROP = 'C10'
LEVEL = 'exploration'
SHARDS = {'quick': 8, 'thorough': 16}
TIMEOUT = {'quick': 300, 'thorough': 3400}
N = {'quick': 3, 'thorough': 6}
RULE = ('cases: every non-wrapping grid shape with extents 0..N per axis (plus LineWorld/GridWorld classes) x every centre cell x every radius '
        '0..(largest extent + 1) x {moore, neumann} x incl_center {False, True} x ret_type {int, tuple} x centre representation {cell id, '
        'coordinate tuple, PositionComponent with integer coordinates, PositionComponent with in-cell offsets +0.25/+0.9} x {specific, '
        'generic get_neighbours} entry point. Oracle: [cells in position-table order with Chebyshev (Moore) / Manhattan (von Neumann) '
        'distance <= r from the centre, centre only when asked]; the id answer must be the table indices of the tuple answer. '
        'Non-trivial query: the ball is clipped by the grid on at least one side AND contains >= 2 cells; distinct by (shape, centre, '
        'radius, kind). Every answer is rearranged / emptied by the caller after it was compared (an answer the world kept for itself shows in the next '
        'identical question); in the truly three-dimensional large worlds every radius from 0 to beyond the diameter is asked, both kinds.')
ASSUMPTIONS = ['exhaustive only for extents <= N', 'radius >= 0, centre inside the grid, wrap_env=False (as the property states)']
FLOORS = {'quick': {'radius_sweep_queries_3d': 38, 'answers_modified_by_the_caller': 39632, 'queries_of_an_expanding_search': 1274, 'queries_with_an_unbounded_radius': 804, 'cases_in_mode_warnings': 6, 'cases_in_mode_optimised': 6, 'refused_queries': 33, 'radius_numpy_int': 4790, 'keyword_spelling': 9580, 'flag_int': 4790, 'flag_numpy_bool': 4790, 'queries': 56000, 'moore': 28000, 'neumann': 28000, 'center_as_id': 14000, 'center_as_tuple': 14000,
                    'center_as_position': 14000, 'center_fractional': 14000, 'generic_entry': 28000, 'clipped_queries': 10000,
                    'shapes': 36, 'big_shapes': 2, 'big_queries': 600, 'big_balls_1024_plus': 40, 'non_cubic_shapes': 30, 'reach:Environments.DiscreteWorld.get_moore_neighbours': 28000,
                    'reach:Environments.DiscreteWorld.get_neumann_neighbours': 28000, 'reach:Environments.DiscreteWorld.get_neighbours': 28000},
          'thorough': {'queries': 1000000, 'shapes': 180}}
EXHAUSTIVE = {'quick': 'all shapes with extents 0..3, all centres, radii 0..max extent+1, all 64 query variants',
              'thorough': 'all shapes with extents 0..6, all centres, radii 0..max extent+1, all 64 query variants'}


def shapes(n):
    for w, h, d in itertools.product(range(n + 1), repeat=3):
        yield {'cls': 'DiscreteWorld', 'ext': [w, h, d]}
    for w in range(1, n + 1):
        yield {'cls': 'LineWorld', 'ext': [w, 0, 0]}
    for w, h in itertools.product(range(1, n + 1), repeat=2):
        if w != h:
            yield {'cls': 'GridWorld', 'ext': [w, h, 0]}


_SPELL = [0]


def spoil(ctx, got):
    """The caller owns the answer: it is rearranged / emptied after it has been compared (picking a random free neighbour does exactly
    that), so an answer that the world kept for itself shows in the next identical question."""
    if isinstance(got, list):
        if len(got) > 1 and len(got) % 2:
            got.reverse()
            got.pop()
        else:
            got.clear()
        ctx.count('answers_modified_by_the_caller')


def query(ctx, env, cv, r, incl, ret, mode, generic):
    """One neighbourhood query through one of its spellings: positional / keywords / defaults for default-valued arguments, the
    centre flag as bool / numpy.bool_ / 0-1, the radius as int / numpy integer."""
    import numpy as np
    _SPELL[0] += 1
    k = _SPELL[0] % 8
    flag = incl
    rad = r
    if k == 1:
        flag = np.bool_(incl)
        ctx.count('flag_numpy_bool')
    elif k == 2:
        flag = int(incl)
        ctx.count('flag_int')
    elif k == 3 and r < 2 ** 31:       # (a numpy integer near its own limit overflows inside numpy: not an int any more)
        rad = np.int64(r)
        ctx.count('radius_numpy_int')
    if k in (4, 5):
        ctx.count('keyword_spelling')
        kw = dict(radius=rad, incl_center=flag, ret_type=ret)
        if k == 5:          # arguments equal to their documented defaults are left out
            if r == 1:
                del kw['radius']
            if incl is False:
                del kw['incl_center']
            if ret is int:
                del kw['ret_type']
        if generic:
            if not (k == 5 and mode == 'moore'):
                kw['mode'] = mode
            return env.get_neighbours(cv, **kw)
        return (env.get_moore_neighbours if mode == 'moore' else env.get_neumann_neighbours)(cv, **kw)
    if generic:
        return env.get_neighbours(cv, rad, flag, ret, mode)
    return (env.get_moore_neighbours if mode == 'moore' else env.get_neumann_neighbours)(cv, rad, flag, ret)


def run_case(ctx, case):
    import ECAgent.Core as core
    import ECAgent.Environments as envs
    m = core.Model()
    _SPELL[0] = 0           # spellings are a function of the position within the case (replayable)
    w, h, d = case['ext']
    if case['cls'] == 'DiscreteWorld':
        env = envs.DiscreteWorld(m, w, h, d)
    elif case['cls'] == 'LineWorld':
        env = envs.LineWorld(m, w)
    else:
        env = envs.GridWorld(m, w, h)
    table = [tuple(p) for p in env.cells['pos'].tolist()]
    index = {p: i for i, p in enumerate(table)}
    check(len(index) == len(table), 'position table has duplicate coordinates', shape=case)
    dummy = core.Agent('probe', m)
    maxr = max(w, h, d, 1) + 1
    only = case.get('only')
    ctx.count('shapes')
    if len({e for e in case['ext']}) > 1:
        ctx.count('non_cubic_shapes')
    pc_int = envs.PositionComponent(dummy, m, 0, 0, 0)
    pc_frac = envs.PositionComponent(dummy, m, 0, 0, 0)
    for ci, c in enumerate(table):
        # the SAME component objects are re-used and moved (an agent's position component changes as the agent moves)
        pc_int.x, pc_int.y, pc_int.z = c
        pc_frac.x, pc_frac.y, pc_frac.z = c[0] + 0.25, c[1] + 0.9, c[2] + 0.5
        centres = [('id', ci), ('tuple', c), ('position', pc_int), ('fractional', pc_frac)]
        if ci % 2 == 0 and not only:
            # an expanding search: the same centre and the same kind of neighbourhood asked with growing radii, each radius twice in a row
            # (first as coordinates, then as ids - or ids both times), nothing else in between
            for mode_, fn_ in (('moore', env.get_moore_neighbours), ('neumann', env.get_neumann_neighbours)):
                incl_ = (ci // 2) % 2 == 0
                first_form = tuple if (ci // 4) % 2 == 0 else int
                for r_ in range(0, maxr + 1):
                    ball_ = [p for p in table if (max(abs(p[0] - c[0]), abs(p[1] - c[1]), abs(p[2] - c[2])) if mode_ == 'moore' else
                                                  abs(p[0] - c[0]) + abs(p[1] - c[1]) + abs(p[2] - c[2])) <= r_ and (incl_ or p != c)]
                    for form_ in (first_form, int):
                        got_ = fn_(c if ci % 4 else ci, r_, incl_, form_)
                        want_ = ball_ if form_ is tuple else [index[p] for p in ball_]
                        ctx.count('queries_of_an_expanding_search')
                        if got_ != want_:
                            raise CaseViolation(f'expanding search around {c}: the {mode_} neighbourhood with radius {r_} (asked right after radius '
                                                f'{r_ - 1 if form_ is first_form else r_}) as {form_.__name__} differs from the metric ball', shape=case,
                                                expected=want_[:16], observed=got_[:16] if isinstance(got_, list) else got_)
                        spoil(ctx, got_)
        for r in range(maxr + 1):
            if ci % 3 == 0 and r == 1:
                # queries that the world refuses (an unknown cell id, a radius handed over as 1.0 / 2.0, a centre with too few coordinates, an
                # unknown answer type) - the caller shrugs and asks properly afterwards: the proper answers are as exact as ever
                from vlib import faults
                bad_queries = [(env.get_neumann_neighbours, (len(table) + ci % 2, 1)), (env.get_moore_neighbours, (ci, float(1 + ci % 2))),
                               (env.get_neumann_neighbours, (ci, float(1 + ci % 2), True, tuple)), (env.get_neighbours, (c[:2], 1, False, int, 'neumann')),
                               (env.get_moore_neighbours, (c, 1, False, str)), (env.get_neighbours, (ci, 1, True, tuple, 'neumann' if ci % 2 else 'hex')),
                               (env.get_neumann_neighbours, (-1 - len(table), 2))]
                fn_, args_ = bad_queries[(ci // 3) % len(bad_queries)]
                _, err_ = faults.attempt(fn_, *args_)
                ctx.count('refused_queries' if err_ is not None else 'odd_queries_answered')
            cheb = [p for p in table if max(abs(p[0] - c[0]), abs(p[1] - c[1]), abs(p[2] - c[2])) <= r]
            manh = [p for p in table if abs(p[0] - c[0]) + abs(p[1] - c[1]) + abs(p[2] - c[2]) <= r]
            check(set(manh) <= set(cheb), 'oracle sanity')
            for mode, ball in (('moore', cheb), ('neumann', manh)):
                clipped = len(ball) < ((2 * r + 1) ** sum(1 for e in case['ext'] if e > 0) if mode == 'moore' else None or 10 ** 9)
                for incl in (False, True):
                    exp_t = [p for p in ball if incl or p != c]
                    exp_i = [index[p] for p in exp_t]
                    for rep, cv in centres:
                        for ret, exp in ((int, exp_i), (tuple, exp_t)):
                            for generic in (False, True):
                                got = query(ctx, env, cv, r, incl, ret, mode, generic)
                                if generic:
                                    ctx.count('generic_entry')
                                ctx.ev()
                                if got != exp:
                                    raise CaseViolation(
                                        f'{mode} neighbourhood of {c} r={r} incl_center={incl} ret={ret.__name__} centre-as-{rep} '
                                        f'{"generic" if generic else "specific"} entry differs from the metric ball',
                                        shape=case, expected=exp, observed=got)
                                spoil(ctx, got)
                        ctx.count('center_as_' + rep if rep != 'fractional' else 'center_fractional', 4)
                    ctx.count('queries', 16)
                    ctx.count(mode, 16)
                if mode == 'moore' and clipped and len(ball) >= 2:
                    ctx.count('clipped_queries', 32)
                    ctx.distinct((tuple(case['ext']), case['cls'], c, r))
            if r == 1 and ci % 2 == 0:
                # a radius that stands for 'everything' (sys.maxsize is the library's own idiom for unbounded; larger ints are ints too)
                import sys as _sys
                for huge in (_sys.maxsize, 2 ** 70):
                    for rep_, cv_ in centres[:3]:
                        for mode_ in ('moore', 'neumann'):
                            got_ = query(ctx, env, cv_, huge, ci % 4 == 0, int, mode_, rep_ == 'tuple')
                            exp_ = [index[p] for p in table if ci % 4 == 0 or p != c]
                            ctx.count('queries_with_an_unbounded_radius')
                            if got_ != exp_:
                                raise CaseViolation(f'{mode_} neighbourhood of {c} with radius {huge} (everything) centre-as-{rep_} differs from the whole grid',
                                                    shape=case, expected=exp_[:12], observed=got_[:12] if isinstance(got_, list) else got_)
            # default arguments: radius 1, centre excluded, ids
            if r == 1:
                check(env.get_moore_neighbours(c) == [index[p] for p in cheb if p != c], 'default-argument Moore query differs', shape=case, centre=c)
                check(env.get_neumann_neighbours(c) == [index[p] for p in manh if p != c], 'default-argument von Neumann query differs', shape=case, centre=c)
                check(env.get_neighbours(c) == [index[p] for p in cheb if p != c], 'default-argument generic query differs', shape=case, centre=c)
    expect_raises(KeyError, 'get_neighbours with an unknown mode', env.get_neighbours, table[0], 1, False, int, 'hex')
    ctx.state((case['cls'], tuple(case['ext'])))



BIG_SHAPES = [('DiscreteWorld', [14, 13, 12]), ('DiscreteWorld', [0, 60, 50]), ('DiscreteWorld', [70, 0, 40]), ('GridWorld', [64, 48, 0]),
              ('LineWorld', [3000, 0, 0]), ('DiscreteWorld', [11, 11, 11]), ('DiscreteWorld', [40, 30, 3]), ('DiscreteWorld', [0, 0, 2500]),
              ('DiscreteWorld', [9, 40, 20])]


def case_big(ctx, case):
    """Scale regime: worlds with thousands of cells and neighbourhoods of thousands of cells (a few centres and radii per shape, all
    representations), against the same brute-force oracle."""
    import random as _r
    import ECAgent.Core as core
    import ECAgent.Environments as envs
    rng = _r.Random(str(case))
    m = core.Model()
    _SPELL[0] = 0
    w, h, d = case['ext']
    env = {'DiscreteWorld': lambda: envs.DiscreteWorld(m, w, h, d), 'LineWorld': lambda: envs.LineWorld(m, w),
           'GridWorld': lambda: envs.GridWorld(m, w, h)}[case['cls']]()
    table = [tuple(p) for p in env.cells['pos'].tolist()]
    index = {p: i for i, p in enumerate(table)}
    dummy = core.Agent('probe', m)
    pc = envs.PositionComponent(dummy, m, 0, 0, 0)
    centres = [table[0], table[-1], table[len(table) // 2]] + [rng.choice(table) for _ in range(2)]
    big = max(w, h, d)
    for c in centres:
        for r in sorted({1, 5, 8, 24, 30, big // 2, big + 1}):
            if case['cls'] == 'LineWorld' and r > 60:
                r = 60
            cheb = [p for p in table if max(abs(p[0] - c[0]), abs(p[1] - c[1]), abs(p[2] - c[2])) <= r]
            manh = [p for p in cheb if abs(p[0] - c[0]) + abs(p[1] - c[1]) + abs(p[2] - c[2]) <= r]
            for mode, ball in (('moore', cheb), ('neumann', manh)):
                incl = rng.random() < 0.5
                exp_t = [p for p in ball if incl or p != c]
                exp_i = [index[p] for p in exp_t]
                pc.x, pc.y, pc.z = c[0] + 0.5, c[1] + 0.25, c[2]
                for cv, ret, exp, generic in ((index[c], int, exp_i, False), (c, tuple, exp_t, True), (pc, int, exp_i, True), (c, int, exp_i, False)):
                    got = query(ctx, env, cv, r, incl, ret, mode, generic)
                    ctx.ev()
                    ctx.count('big_queries')
                    if got != exp:
                        bad = next((k for k, (a, b) in enumerate(zip(got, exp)) if a != b), min(len(got), len(exp)))
                        raise CaseViolation(f'{mode} neighbourhood of {c} r={r} incl_center={incl} ret={ret.__name__} in a large world differs from the '
                                            f'metric ball ({len(got)} returned, {len(exp)} expected; first difference at position {bad})',
                                            shape=case, expected=exp[max(0, bad - 2):bad + 4], observed=got[max(0, bad - 2):bad + 4])
                    spoil(ctx, got)
                if len(ball) >= 1024:
                    ctx.count('big_balls_1024_plus')
    if min(w, h, d) > 0:
        # every radius from 0 to beyond the diameter in a truly three-dimensional world (all three offsets non-zero on the rim of the
        # ball), both kinds, as ids, around a corner and an inner cell
        for c in (table[0], (w // 3, h // 2, d // 2)):
            dist = [(max(abs(p[0] - c[0]), abs(p[1] - c[1]), abs(p[2] - c[2])), abs(p[0] - c[0]) + abs(p[1] - c[1]) + abs(p[2] - c[2])) for p in table]
            for r in range(0, w + h + d + 2):
                for mode, k in (('moore', 0), ('neumann', 1)):
                    if mode == 'moore' and r > big + 1:
                        continue
                    exp = [i for i, dd in enumerate(dist) if dd[k] <= r and table[i] != c]
                    got = query(ctx, env, c if r % 2 else index[c], r, False, int, mode, r % 3 == 0)
                    ctx.ev()
                    ctx.count('radius_sweep_queries_3d')
                    if got != exp:
                        bad = next((j for j, (a, b) in enumerate(zip(got, exp)) if a != b), min(len(got), len(exp)))
                        raise CaseViolation(f'{mode} neighbourhood of {c} r={r} (every-radius sweep in a three-dimensional world) differs from the metric '
                                            f'ball ({len(got)} returned, {len(exp)} expected; first difference at position {bad})',
                                            shape=case, expected=exp[max(0, bad - 2):bad + 4], observed=got[max(0, bad - 2):bad + 4])
                    spoil(ctx, got)
    ctx.count('big_shapes')
    ctx.distinct(('big', case['cls'], tuple(case['ext'])))


def run(ctx):
    bigs = BIG_SHAPES[:5] if ctx.tier == 'quick' else BIG_SHAPES
    for j, (cls, ext) in enumerate(bigs):
        if ctx.mine(j) and not ctx.full():
            ctx.run_case({'cls': cls, 'ext': ext, 'big': True}, lambda c, cs: case_big(c, cs))
    for idx, case in enumerate(shapes(N[ctx.tier])):
        if ctx.mine(idx) and not ctx.full():
            ctx.run_case(case, run_case)
            if idx in (27, 45):
                ctx.sample({'shape': case, 'example_query': 'all centres x radii 0..%d x 64 variants' % (max(case['ext']) + 1)})


def replay(ctx, case):
    ctx.run_case(case, case_big if case.get('big') else run_case)
