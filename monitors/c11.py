"""C11 - cell components hold each cell's own value and are independent of their sources.

Shadow copy of every cell column across add/remove histories on line / 2-D / 3-D / degenerate shapes; sources: pure callables
whose value encodes the coordinates (calls recorded), lists, numpy arrays (int / float / object), ConstantGenerator,
LookupGenerator (fully 3-nested table: must work; table of the world's own dimensionality on worlds with fewer than three
axes: known finding F4 when it fails with TypeError/IndexError and leaves the table unchanged).
"""
import numpy as np

from vlib.engine import CaseViolation
from vlib.util import check, expect_raises

PROP = 'C11'
LEVEL = 'exploration'
SHARDS = {'quick': 8, 'thorough': 16}
TIMEOUT = {'quick': 300, 'thorough': 3300}
N_HIST = {'quick': 500, 'thorough': 25000}
N_BIG = {'quick': 8, 'thorough': 200}           # scale regime: worlds with thousands of cells / more than 100 components
RULE = ('cases: seeded histories of 5-20 adds/removes of named cell components on LineWorld, GridWorld, DiscreteWorld shapes (non-cubic, '
        'with zero extents in any position); sources per add: callable (value encodes (x,y,z)), list, numpy array (int/float/object '
        'dtype), ConstantGenerator, LookupGenerator with a fully 3-nested table (also edited / replaced between construction and use, or re-used for a '
        'second component), user subclasses of both bundled generators overriding __call__, LookupGenerator with a table of the world\'s own '
        'dimensionality (1-D table on a line, 2-D on a flat grid); after every op every column is compared with its shadow, the cell set '
        'and pos column with the original, random get_cell rows with the shadows; the caller\'s list/array is mutated after the add; '
        'unknown removals must raise ComponentNotFoundError and change nothing. Non-trivial history: >=3 different source kinds, >=1 '
        'removal with other components present, >=2 cells; distinct by (shape, op trace).')
ASSUMPTIONS = ['removing np.copy is observationally invisible under pandas copy-on-write (stated reach limit)',
               'generators are pure functions of the coordinates', 'F4 (LookupGenerator on low-dimensional worlds) is a known finding']
FLOORS = {'quick': {'src_callable_returning_equal_but_distinct_records': 31, 'src_constant_that_is_a_collection': 47, 'operations_after_which_nobody_looked': 427, 'src_subclassed_lookup_with_full_table': 76, 'cases_in_mode_warnings': 42, 'deep_copies_of_the_world_checked': 179, 'sources_that_add_another_component_while_running': 31, 'sources_failing_part_way': 36, 're_added_from_array': 26, 'column_comparisons': 8000, 'src_callable': 238, 'src_list': 231, 'src_numpy': 235, 'src_constant': 236,
                    'src_lookup3': 300, 'src_subclassed': 200, 'lookup_table_changed_before_use': 100, 'source_mutated_before_first_read': 200, 'src_lookup_lowdim': 135, 'removals': 379, 'in_place_updates': 179, 're_added_existing_name': 91, 'rejected_unknown_removal': 300, 'source_mutations': 550,
                    'get_cell_rows': 3000, 'big_worlds': 2, 'many_component_worlds': 2, 'shapes_line': 50, 'shapes_grid': 46, 'shapes_3d': 50, 'shapes_degenerate': 50,
                    'generator_calls_checked': 1378, 'reach:Environments.DiscreteWorld.add_cell_component': 1900,
                    'reach:Environments.LookupGenerator.__call__': 1000},
          'thorough': {'column_comparisons': 400000}}
EXHAUSTIVE = {}


class Rec:
    """A per-cell record that compares equal to every record of the same kind (land-use class, say) while carrying state of its own."""
    __slots__ = ('kind', 'serial')

    def __init__(self, kind, serial):
        self.kind, self.serial = kind, serial

    def __eq__(self, other):
        return isinstance(other, Rec) and other.kind == self.kind

    def __hash__(self):
        return hash(self.kind)

    def __repr__(self):
        return f'Rec(kind={self.kind}, serial={self.serial})'


def same(a, b):
    try:
        if isinstance(a, (tuple, list)) or isinstance(b, (tuple, list)):
            return tuple(a) == tuple(b)
        return bool(a == b)
    except Exception:  # noqa
        return False


def build_world(rng):
    import ECAgent.Core as core
    import ECAgent.Environments as envs
    m = core.Model()
    k = rng.choice(['line', 'grid', '3d', 'degenerate'])
    if k == 'line':
        ext = [rng.randint(1, 7), 0, 0]
        env = envs.LineWorld(m, ext[0])
    elif k == 'grid':
        w = rng.randint(1, 5)
        ext = [w, rng.choice([h for h in range(1, 6) if h != w]), 0]
        env = envs.GridWorld(m, ext[0], ext[1])
    elif k == '3d':
        ext = rng.choice([[2, 3, 4], [3, 2, 2], [1, 4, 2], [2, 2, 3], [4, 1, 2], [3, 3, 2]])
        env = envs.DiscreteWorld(m, *ext)
    else:
        ext = rng.choice([[0, 3, 0], [0, 0, 4], [0, 3, 2], [3, 0, 2], [0, 0, 0], [2, 0, 0], [1, 1, 0], [0, 2, 0], [3, 2, 0]])
        env = envs.DiscreteWorld(m, *ext)
    return envs, env, k, ext


def case_history(ctx, case):
    rng = ctx.rng('hist', case['i'])
    envs, env, kind, ext = build_world(rng)
    ctx.count('shapes_' + kind)
    n_axes = [max(e, 1) for e in ext]
    ncells = n_axes[0] * n_axes[1] * n_axes[2]
    table = [(x, y, z) for z in range(n_axes[2]) for y in range(n_axes[1]) for x in range(n_axes[0])]
    check([tuple(p) for p in env.cells['pos'].tolist()] == table, 'initial position table is not x-fastest', shape=ext)
    shadow = {}
    trace = []
    kinds_used = set()
    flags = set()
    npos = sum(1 for e in ext if e > 0)
    lowdim_ok = ext[0] > 0 and ext[2] == 0          # line (w,0,0) or flat grid (w,h,0): table dimensionality is unambiguous

    look_p = rng.choice([1.0, 1.0, 0.5, 0.25])          # the cell table is looked at after every operation, or only now and then

    def verify(what):
        if what.startswith(('after add ', 'after remove ', 'after updating ', 'after adding ')) and rng.random() >= look_p:
            ctx.count('operations_after_which_nobody_looked')
            return
        cols = list(env.cells.columns)
        if sorted(cols) != sorted(['pos'] + list(shadow)):
            raise CaseViolation(f'{what}: cell components present are {cols}, expected pos + {sorted(shadow)}', shape=ext, trace=trace[-8:])
        check(len(env.cells) == ncells, f'{what}: number of cells changed to {len(env.cells)}', shape=ext, trace=trace[-8:])
        check([tuple(p) for p in env.cells['pos'].tolist()] == table, f'{what}: the position column changed', shape=ext, trace=trace[-8:])
        for name, vals in shadow.items():
            got = env.cells[name].tolist()
            ctx.ev()
            ctx.count('column_comparisons')
            if len(got) != len(vals) or not all(same(g, v) for g, v in zip(got, vals)):
                bad = next((i for i, (g, v) in enumerate(zip(got, vals)) if not same(g, v)), None)
                raise CaseViolation(f'{what}: cell component {name!r} differs from its source values (first at cell id {bad} = {table[bad] if bad is not None else None})',
                                    shape=ext, expected=vals[:12], observed=got[:12], trace=trace[-8:])
        if rng.random() < 0.08:
            # a deep copy of the world holds the same cells with the same values, and a component added to IT afterwards holds what its
            # source assigns (for the copy's cells)
            import copy as _copy
            e2 = _copy.deepcopy(env)
            ctx.count('deep_copies_of_the_world_checked')
            check([tuple(p) for p in e2.cells['pos'].tolist()] == table, f'{what}: a deep copy of the world has another set / order of cells', shape=ext)
            for name, vals in shadow.items():
                got2 = e2.cells[name].tolist()
                if len(got2) != len(vals) or not all(same(g, v) for g, v in zip(got2, vals)):
                    raise CaseViolation(f'{what}: in a deep copy of the world cell component {name!r} differs from its source values', shape=ext,
                                        expected=vals[:12], observed=got2[:12])
            e2.add_cell_component('added to the copy', lambda pos, cells: pos[0] + 10 * pos[1] + 100 * pos[2])
            check(e2.cells['added to the copy'].tolist() == [p[0] + 10 * p[1] + 100 * p[2] for p in table],
                  f'{what}: a component added to a deep copy of the world does not hold its source\'s values cell by cell', shape=ext)
            check('added to the copy' not in env.cells.columns, 'a component added to a deep copy shows up in the original world', shape=ext)
        for _ in range(3):
            i = rng.randrange(ncells)
            x, y, z = table[i]
            row = env.get_cell(x, y, z)
            ctx.count('get_cell_rows')
            check(tuple(row['pos']) == (x, y, z), f'{what}: get_cell{(x, y, z)} returned the row of {row["pos"]}', shape=ext)
            for name, vals in shadow.items():
                check(same(row[name], vals[i]), f'{what}: get_cell{(x, y, z)}[{name!r}] is {row[name]!r}, expected {vals[i]!r}', shape=ext,
                      trace=trace[-8:])

    def code(p, salt):
        return p[0] + 10 * p[1] + 100 * p[2] + 1000 * salt

    names = ['c1', 'c10', 'c2', 'food', 'food_max', 'rain', 'rainfall', 'slope', 'p', 'o', 's', 'po', 'x pos',
             'c[12]', 'c*', 'f??d', 'rain*', 'c$$', 'depth', 'width', 'height', 'id', 'model', 'caf\u00e9', 'cafe\u0301', '\u00b5', '\u03bc']   # overlapping names on purpose; names that look like patterns; unnormalised unicode
    for step in range(rng.randint(5, 20)):
        x = rng.random()
        free = [n for n in names if n not in shadow]
        if x < 0.58 and free:
            name = rng.choice(free)
            salt = step + 1
            src = rng.choice(['callable', 'list', 'numpy', 'constant', 'lookup3', 'lookup_lowdim' if lowdim_ok else 'lookup3', 'subclassed'])
            exp = None
            mutate_first = rng.random() < 0.5        # change the caller's object BEFORE anything reads the cell table again
            if src == 'callable' and rng.random() < 0.2:
                # a generator whose values are records that compare EQUAL within a kind but are distinct objects with per-cell state:
                # every cell holds the record generated for ITS coordinates
                def gen_rec(pos, cells, salt=salt):
                    return Rec((pos[0] + pos[1] + pos[2]) % 2, code(pos, salt))
                env.add_cell_component(name, gen_rec)
                exp = [Rec((p_[0] + p_[1] + p_[2]) % 2, code(p_, salt)) for p_ in table]
                held = [getattr(v_, 'serial', None) for v_ in list(env.cells[name])]
                ctx.count('src_callable_returning_equal_but_distinct_records')
                if held != [r_.serial for r_ in exp]:
                    raise CaseViolation(f'cell component {name!r} from a generator of per-cell records: a cell holds the record generated for another cell',
                                        shape=ext, expected_serials=[r_.serial for r_ in exp][:12], held_serials=held[:12])
            elif src == 'callable':
                calls = []

                def gen(pos, cells, calls=calls, salt=salt):
                    calls.append(tuple(pos))
                    return code(pos, salt) if salt % 3 else f'{pos[0]}:{pos[1]}:{pos[2]}'
                if rng.random() < 0.15:
                    from vlib import reps
                    reps.deprecated_call(env.addCellComponent, name, gen)       # deprecated spelling
                    ctx.count('deprecated_alias_calls')
                else:
                    env.add_cell_component(name, gen)
                exp = [code(p, salt) if salt % 3 else f'{p[0]}:{p[1]}:{p[2]}' for p in table]
                ctx.count('generator_calls_checked', len(calls))
                check(sorted(calls) == sorted(table), 'generator was not called with every cell\'s coordinates', calls=calls[:20], shape=ext)
            elif src == 'list':
                style = rng.choice(['int', 'str', 'mixed', 'tuple'])
                vals = [{'int': code(p, salt), 'str': f's{code(p, salt)}', 'mixed': code(p, salt) if i % 2 else f'm{i}',
                         'tuple': (p[0], salt)}[style] for i, p in enumerate(table)]
                L = list(vals)
                env.add_cell_component(name, L)
                exp = vals
                verify_after = L
            elif src == 'numpy':
                dt = rng.choice(['int', 'float', 'object'])
                vals = [code(p, salt) for p in table]
                if dt == 'float':
                    vals = [v + 0.5 for v in vals]
                arr = np.array(vals, dtype={'int': np.int64, 'float': np.float64, 'object': object}[dt])
                if dt == 'object':
                    for i in range(0, len(vals), 2):
                        vals[i] = f'o{i}'
                        arr[i] = vals[i]
                env.add_cell_component(name, arr)
                exp = list(vals)
                verify_after = arr
            elif src == 'subclassed':
                # user generators derived from the bundled ones: their own __call__ decides the value
                base = rng.choice(['constant', 'lookup', 'lookup_full', 'lookup_full'])
                if base == 'lookup_full':
                    # ... also with a complete table of the world's shape (nested lists or a numpy array) that its __call__ post-processes
                    tab = [[[code((xx, yy, zz), salt) for zz in range(n_axes[2])] for yy in range(n_axes[1])] for xx in range(n_axes[0])]
                    as_array = rng.random() < 0.6

                    class G(envs.LookupGenerator):
                        def __call__(self, pos, cells):
                            return super().__call__(pos, cells) * 12 + 1
                    g = G(np.array(tab) if as_array else tab)
                    env.add_cell_component(name, g)
                    exp = [code(p_, salt) * 12 + 1 for p_ in table]
                    ctx.count('src_subclassed_lookup_with_full_table')
                    trace.append(('add', name, 'subclassed-lookup-full', 'array' if as_array else 'lists'))
                    base = None
                elif base == 'constant':
                    class G(envs.ConstantGenerator):
                        def __call__(self, pos, cells, salt=salt):
                            return code(pos, salt)
                    g = G(rng.choice([np.float64(1.5), np.int64(3), 7, 'k']))
                else:
                    class G(envs.LookupGenerator):
                        def __call__(self, pos, cells, salt=salt):
                            return code(pos, salt) + self.table[0]
                    g = G([5])
                if base is not None:
                    env.add_cell_component(name, g)
                    exp = [code(p_, salt) + (5 if base == 'lookup' else 0) for p_ in table]
            elif src == 'constant':
                v = rng.choice([0, 1, -2.5, 'k', None, True])
                if rng.random() < 0.3:
                    # a constant that is itself a sequence or a mapping (an RGB triple, a default inventory): every cell holds that very
                    # value - also when the sequence happens to be as long as the world has cells
                    v = rng.choice([tuple(range(ncells)), tuple(range(ncells)), list(range(10, 10 + ncells)), (255, 128, 0), {'a': 1}, (7,)])
                    ctx.count('src_constant_that_is_a_collection')
                env.add_cell_component(name, envs.ConstantGenerator(v))
                exp = [v] * ncells
            elif src == 'lookup3':
                tab = [[[code((xx, yy, zz), salt) for zz in range(n_axes[2])] for yy in range(n_axes[1])] for xx in range(n_axes[0])]
                style = rng.choice(['direct', 'direct', 'edited_after_construction', 'table_replaced', 'reused'])
                if style == 'direct':
                    env.add_cell_component(name, envs.LookupGenerator(tab))
                    exp = [code(p, salt) for p in table]
                elif style == 'edited_after_construction':
                    g = envs.LookupGenerator(tab)
                    tab[0][0][0] = -5            # the table is edited between constructing the generator and using it
                    env.add_cell_component(name, g)
                    exp = [code(p, salt) if p != (0, 0, 0) else -5 for p in table]
                    ctx.count('lookup_table_changed_before_use')
                elif style == 'table_replaced':
                    g = envs.LookupGenerator([[[0] * n_axes[2] for _ in range(n_axes[1])] for _ in range(n_axes[0])])
                    g.table = tab                # documented attribute
                    env.add_cell_component(name, g)
                    exp = [code(p, salt) for p in table]
                    ctx.count('lookup_table_changed_before_use')
                else:
                    g = envs.LookupGenerator(tab)
                    env.add_cell_component(name, g)
                    exp = [code(p, salt) for p in table]
                    shadow[name] = exp
                    second = [n for n in names if n not in shadow]
                    if second:               # the same generator object fills a second component after its table changed
                        for xx in range(n_axes[0]):
                            tab[xx][0][0] += 100000
                        env.add_cell_component(second[0], g)
                        shadow[second[0]] = [code(p, salt) + (100000 if p[1] == 0 and p[2] == 0 else 0) for p in table]
                        ctx.count('lookup_table_changed_before_use')
                        trace.append(('add', second[0], 'lookup3-reused'))
            else:   # table of the world's own dimensionality on a line / flat grid
                if npos == 1:
                    tab = [code((xx, 0, 0), salt) for xx in range(n_axes[0])]
                else:
                    tab = [[code((xx, yy, 0), salt) for yy in range(n_axes[1])] for xx in range(n_axes[0])]
                before_cols = list(env.cells.columns)
                try:
                    env.add_cell_component(name, envs.LookupGenerator(tab))
                    exp = [code(p, salt) for p in table]
                except (TypeError, IndexError) as e:
                    ctx.finding('lookupgenerator-lowdim-world',
                                'LookupGenerator with a table of the world\'s dimensionality fails on a line / 2-D world',
                                {'case': case, 'shape': ext, 'table_nesting': npos, 'error': f'{type(e).__name__}: {e}'})
                    check(list(env.cells.columns) == before_cols, 'failed add_cell_component left a partial column behind', shape=ext)
                    trace.append(('add', name, src, 'F4'))
                    ctx.count('src_' + src)
                    verify(f'after failed lookup add of {name}')
                    continue
            ctx.count('src_' + src)
            kinds_used.add(src)
            shadow[name] = exp
            trace.append(('add', name, src))
            if not (mutate_first and src in ('list', 'numpy')):
                verify(f'after add {name} from {src}')
            else:
                ctx.count('source_mutated_before_first_read')
            if src in ('list', 'numpy'):
                # later changes to the caller's object must not show through
                for i in range(len(verify_after)):
                    verify_after[i] = -777 if src == 'numpy' and verify_after.dtype != object else 'changed'
                if src == 'list':
                    verify_after.append('extra')
                ctx.count('source_mutations')
                verify(f'after mutating the caller\'s {src} used for {name}')
        elif x < 0.60 and free:
            # a callable source that FAILS part-way (any exception class, StopIteration and KeyboardInterrupt-likes included): the error
            # reaches the caller and no half-assigned component appears; the world is used on afterwards
            from vlib import faults
            name = rng.choice(free)
            cls = faults.pick(rng)
            n_ok = rng.randrange(ncells)
            seen_ = [0]

            def failing(pos, cells, n_ok=n_ok, cls=cls):
                seen_[0] += 1
                if seen_[0] > n_ok:
                    raise faults.make(cls, 'source fails part-way')
                return seen_[0]
            _, err = faults.attempt(env.add_cell_component, name, failing)
            ctx.count('sources_failing_part_way')
            trace.append(('add-failing', name, cls.__name__, n_ok))
            if err is None:
                raise CaseViolation(f'add_cell_component returned normally although its source raised {cls.__name__} after {n_ok} of {ncells} cells '
                                    f'(the component cannot hold what its source assigns)', shape=ext, column=env.cells[name].tolist()[:12] if name in env.cells else None)
            verify(f'after a source for {name} failed part-way ({cls.__name__})')
        elif x < 0.62 and len(free) >= 2 and ncells >= 2:
            # a callable source that, while it runs, adds ANOTHER component with a callable source (a helper created lazily): both hold
            # what their sources assign
            name, helper = rng.sample(free, 2)
            j_re = rng.randrange(1, ncells)
            salt = step + 1
            state_ = [0]

            def outer(pos, cells, salt=salt):
                state_[0] += 1
                if state_[0] == j_re + 1 and helper not in env.cells.columns:
                    env.add_cell_component(helper, lambda p_, c_: code(p_, salt) + 7)
                return code(pos, salt)
            env.add_cell_component(name, outer)
            shadow[name] = [code(p_, salt) for p_ in table]
            shadow[helper] = [code(p_, salt) + 7 for p_ in table]
            ctx.count('sources_that_add_another_component_while_running')
            trace.append(('add-reentrant', name, helper, j_re))
            verify(f'after {name} was added by a source that added {helper} while running')
        elif x < 0.66 and shadow:
            # an existing name is added again through add_cell_component: the values are replaced, nothing else changes; afterwards the
            # name can be removed exactly once
            name = rng.choice(list(shadow))
            vals = [code(p_, step + 500) for p_ in table]
            how = rng.choice(['list', 'callable', 'constant', 'numpy', 'numpy'])
            if how == 'numpy':
                # an array of ANY element kind over whatever the name held before (ints over floats, floats over ints, strings, ...)
                dt = rng.choice(['int', 'float', 'object', 'bigint', 'str', 'bool'])
                if dt == 'float':
                    vals = [v + 0.25 for v in vals]
                elif dt == 'bigint':
                    vals = [2 ** 53 + 1 + 2 * v for v in vals]
                elif dt == 'str':
                    vals = [f'n{v}' for v in vals]
                elif dt == 'bool':
                    vals = [bool(v % 2) for v in vals]
                elif dt == 'object':
                    vals = [v if i % 2 else f'o{v}' for i, v in enumerate(vals)]
                arr = np.array(vals, dtype={'int': np.int64, 'bigint': np.int64, 'float': np.float64, 'object': object, 'str': object,
                                            'bool': np.bool_}[dt])
                env.add_cell_component(name, arr)
                how = 'numpy:' + dt
                ctx.count('re_added_from_array')
                arr[:] = arr[::-1].copy()      # and the caller's array changes afterwards
            elif how == 'list':
                env.add_cell_component(name, list(vals))
            elif how == 'callable':
                env.add_cell_component(name, lambda pos, cells, st=step: code(pos, st + 500))
            else:
                vals = [step] * ncells
                env.add_cell_component(name, envs.ConstantGenerator(step))
            shadow[name] = vals
            ctx.count('re_added_existing_name')
            trace.append(('re-add', name, how))
            verify(f'after adding {name} again')
            if rng.random() < 0.5:
                env.remove_cell_component(name)
                del shadow[name]
                ctx.count('removals')
                trace.append(('remove', name))
                verify(f'after remove {name}')
                expect_raises(Exception, f'second removal of {name!r}', env.remove_cell_component, name)
                ctx.count('rejected_unknown_removal')
                verify(f'after rejected second removal of {name}')
        elif x < 0.74 and shadow:
            # the model updates a component's values in place (whole column or one cell), through the documented cells table
            name = rng.choice(list(shadow))
            homogeneous = all(type(v) is int for v in shadow[name]) or all(type(v) is str for v in shadow[name])
            if rng.random() < 0.5 or not homogeneous:      # (a mixed None/number list would be coerced by pandas itself)
                vals = [f'u{step}:{i}' for i in range(ncells)]
                env.cells[name] = list(vals)
                shadow[name] = vals
            else:
                i = rng.randrange(ncells)
                col = list(shadow[name])
                col[i] = -1000 - step if not isinstance(col[i], str) else f'cell{step}'
                env.cells[name] = col
                shadow[name] = col
            ctx.count('in_place_updates')
            trace.append(('update', name))
            verify(f'after updating {name} in place')
        elif x < 0.88 and shadow:
            name = rng.choice(list(shadow))
            env.remove_cell_component(name)
            del shadow[name]
            ctx.count('removals')
            if shadow:
                flags.add('removal_with_others')
            trace.append(('remove', name))
            verify(f'after remove {name}')
        else:
            name = rng.choice([n for n in names if n not in shadow] + ['nope'])
            expect_raises(Exception, f'remove_cell_component({name!r}) of an unknown component', env.remove_cell_component, name)
            try:
                env.remove_cell_component(name)
            except Exception as e:  # noqa
                check(type(e).__name__ == 'ComponentNotFoundError', f'unknown removal raised {type(e).__name__}, not ComponentNotFoundError')
            ctx.count('rejected_unknown_removal')
            trace.append(('remove!', name))
            verify(f'after rejected removal of {name}')
    verify('at the end of the history')
    ctx.state((kind, tuple(ext)))
    if len(kinds_used) >= 3 and 'removal_with_others' in flags and ncells >= 2:
        ctx.distinct((tuple(ext), kind, tuple(trace)))
    if case['i'] < 3:
        ctx.sample({'kind': 'history', 'i': case['i'], 'world': kind, 'extents': ext, 'trace': trace[:12]})



def case_big(ctx, case):
    """Scale regime: (a) worlds with thousands of cells whose callable / list / array sources return different numeric kinds in different
    regions (ints below a waterline, floats above, bools in a corner); (b) a small world carrying more than a hundred cell components,
    each from an array that the caller changes afterwards."""
    rng = ctx.rng('big', case['i'])
    import warnings
    import pandas
    import ECAgent.Core as core
    import ECAgent.Environments as envs
    warnings.simplefilter('ignore', pandas.errors.PerformanceWarning)      # pandas' advice about many inserts is not an observation
    m = core.Model()
    if case['i'] % 2 == 0:
        w, h = rng.choice([(128, 64), (90, 60), (70, 70), (5000, 0)])
        env = envs.GridWorld(m, w, h) if h else envs.LineWorld(m, w)
        table = [tuple(p_) for p_ in env.cells['pos'].tolist()]
        n = len(table)
        cut = rng.randint(n // 2 + 100, n - 50) if n > 4500 else n // 2

        def value(i, p_):
            if i < 40 and case['i'] % 4 == 0:
                return bool(p_[0] % 2)
            return p_[0] + 1000 * p_[1] if i < cut else p_[0] + 1000 * p_[1] + 0.015625     # int below the waterline, float above

        exp = [value(i, p_) for i, p_ in enumerate(table)]
        idx = {p_: i for i, p_ in enumerate(table)}
        env.add_cell_component('terrain', lambda pos, cells: value(idx[tuple(pos)], pos))
        env.add_cell_component('as_list', list(exp))
        for name in ('terrain', 'as_list'):
            got = env.cells[name].tolist()
            ctx.ev()
            bad = [i for i in range(n) if not (same(got[i], exp[i]))]
            if bad:
                raise CaseViolation(f'large world {w}x{h}: component {name!r} differs from its source in {len(bad)} of {n} cells (first: cell id '
                                    f'{bad[0]} = {table[bad[0]]}: {got[bad[0]]!r} instead of {exp[bad[0]]!r})', waterline=cut)
        for i in (0, cut - 1, cut, n - 1):
            x, y, z = table[i]
            check(same(env.get_cell(x, y, z)['terrain'], exp[i]), f'get_cell{(x, y, z)} in a large world shows the wrong value')
        ctx.count('big_worlds')
        ctx.count('big_cells', n)
    else:
        env = envs.GridWorld(m, 5, 4)
        n = 20
        arrays = {}
        k = rng.choice([105, 130, 160])
        for j in range(k):
            kind = rng.choice(['numpy', 'numpy', 'list', 'callable'])
            vals = [j * 100 + i for i in range(n)]
            if kind == 'numpy':
                arr = np.array(vals, dtype=rng.choice([np.int64, np.float64]))
                env.add_cell_component(f'layer{j}', arr)
                arrays[f'layer{j}'] = (arr, vals)
            elif kind == 'list':
                L = list(vals)
                env.add_cell_component(f'layer{j}', L)
                arrays[f'layer{j}'] = (L, vals)
            else:
                env.add_cell_component(f'layer{j}', lambda pos, cells, j=j: j * 100 + pos[0] + 5 * pos[1])
                arrays[f'layer{j}'] = (None, vals)
        for name, (src, vals) in arrays.items():        # the caller re-uses its buffers
            if src is not None:
                for i in range(n):
                    src[i] = -1
        ctx.count('source_mutations', k)
        for name, (src, vals) in arrays.items():
            got = env.cells[name].tolist()
            ctx.ev()
            if not all(same(g, v) for g, v in zip(got, vals)):
                raise CaseViolation(f'world with {k} cell components: {name!r} changed together with the caller\'s buffer / differs from its source',
                                    expected=vals[:6], observed=got[:6])
        check(sorted(env.cells.columns) == sorted(['pos'] + list(arrays)), 'set of cell components differs')
        ctx.count('many_component_worlds')
    ctx.distinct(('big', case['i']))


def run_case(ctx, case):
    (case_big if case.get('kind') == 'big' else case_history)(ctx, case)


def run(ctx):
    for i in range(N_HIST[ctx.tier]):
        if ctx.mine(i) and not ctx.full():
            ctx.run_case({'kind': 'hist', 'i': i}, run_case)
    for i in range(N_BIG[ctx.tier]):
        if ctx.mine(i) and not ctx.full():
            ctx.run_case({'kind': 'big', 'i': i}, run_case)


def replay(ctx, case):
    ctx.run_case(case, run_case)
