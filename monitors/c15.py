"""C15 - a batch runs every combination x repetition once; no result lost, duplicated or mixed (fault enumeration).

Offline checker over self-identifying records: every model construction gets a uuid and a global ordinal, every record is
stamped (uuid, collector id, params, timestep, pid, ordinal); run durations are perturbed so completion order is permuted;
process counts 1..16; an injected failure (constructor or timestep k) at every ordinal of the batch must reach the caller with
its type and tag.  Each group of batches runs in a child interpreter under a watchdog (a hung pool is INCONCLUSIVE).
"""
import itertools
import json
import os
import shutil
import subprocess
import sys
import tempfile

from vlib.engine import CaseViolation, Inconclusive, repo_root, child_python
from vlib.util import check

PROP = 'C15'
LEVEL = 'fault_enumeration'
SHARDS = {'quick': 8, 'thorough': 16}
TIMEOUT = {'quick': 1000, 'thorough': 3500}
N_GROUPS = {'quick': 32, 'thorough': 640}
N_BIG = {'quick': 9, 'thorough': 150}           # scale regime: 70-260 executions / 700-1500 timesteps / 40-70 repetitions
GROUP = 8
RULE = ('cases: seeded batch_run calls on a self-identifying fixture model: grids of 1-4 parameters (1-12 combinations; lists, tuples, ranges, '
        'scalar and string parameters, dict or ParameterList input - the latter also after an earlier build and a parameter removal), repetitions 1-3, max_timesteps below / at / above the runs\' own '
        'completion time (and unlimited), collectors given as one name, 2-3 names or not at all, process counts 1..16, per-run sleeps of 0-3 ms so that '
        'completion order is permuted; plus fault batches: an exception injected in the constructor or at timestep k of the n-th '
        'construction, for every n of the batch, with 1 and k processes. Offline oracle over the returned records: result count == '
        '|product| x repetitions; each result carries exactly one run uuid, uuids pairwise distinct, collector ids match the request; the '
        'multiset of parameter combinations == product x repetitions; each run recorded exactly timesteps 0..min(completion, limit)-1; '
        'product order for one process; the injected fault (classes derived from Exception, KeyError, IndexError, AttributeError, StopIteration, and the ModelCompleteError of the library raised inside a run) reaches the caller - itself or as the cause of what is raised. Non-trivial batch: >=2 processes, '
        '>=4 executions and either a completion order different from submission order or a fault; distinct by the batch signature.')
ASSUMPTIONS = ['a batch_run call that hangs in Pool.terminate() after a failed execution is the known finding F7; any other hang is inconclusive',
               'fault position = n-th model construction (global ordinal claimed through O_EXCL files), which equals the list position for one '
               'process and approximates it for several', 'a hang outside that mechanism is reported as inconclusive by the watchdog, not as a violation']
FLOORS = {'quick': {'parameter_list_used_for_an_earlier_grid_search': 4, 'step_limit_reached_after_a_warm_up': 1, 'batches_whose_collectors_rebind_their_records': 14, 'batches_whose_models_warm_up_in_their_constructor': 8, 'batches_with_an_empty_product': 1, 'faults_raised_right_after_the_run_completed_itself': 1, 'records_with_class_level_state_checked': 6046, 'batches_with_a_run_that_calls_a_deprecated_alias': 1, 'fault_exc_InjectedOSError': 1, 'batches_after_a_refused_batch_run_call': 11, 'parameter_list_used_for_an_earlier_batch': 8, 'parameter_list_from_a_dict_reused_by_the_caller': 7, 'fault_exc_InjectedModelComplete': 1, 'batches': 100, 'executions_checked': 310, 'records_checked': 1200, 'fault_batches': 30, 'faults_propagated': 30,
                    'multi_process_batches': 50, 'reordered_batches': 5, 'serial_order_checks': 9, 'limit_below_completion': 15,
                    'limit_above_completion': 15, 'multi_collector_batches': 20, 'no_collector_batches': 6, 'big_batches_many_runs': 1, 'big_batches_long_runs': 1, 'big_batches_many_repetitions': 1, 'collectors_at_completer_priority': 22, 'parameter_list_with_history': 10, 'procs_1': 20, 'procs_2_4': 20, 'procs_5_8': 8, 'procs_9_16': 8},
          'thorough': {'batches': 3000, 'fault_batches': 1000, 'reordered_batches': 200, 'procs_9_16': 200}}
EXHAUSTIVE = {}


def gen_grid(rng):
    names = rng.sample(['alpha', 'beta', 'gamma', 'delta'], rng.randint(1, 4))
    grid = {}
    total = 1
    for n in names:
        k = rng.choice([1, 1, 2, 2, 3, 4])
        if total * k > 12:
            k = 1
        kind = rng.choice(['list', 'list', 'scalar', 'str', 'range', 'repeat'])
        if rng.random() < 0.04:
            # a collection that happens to be empty (a filtered candidate list): the product is empty - no execution, no result
            grid[n] = rng.choice([[], {'__range__': [0, 0]}])
            k = 0
        elif kind == 'scalar' or k == 1 and rng.random() < 0.5:
            grid[n] = rng.choice([7, 2.5, True, None])
            k = 1
        elif kind == 'str':
            grid[n] = 'text'
            k = 1
        elif kind == 'range':
            grid[n] = {'__range__': [0, k]}
        elif kind == 'repeat' and k >= 2:
            vals = [rng.randint(0, 3) for _ in range(k)]
            vals[1] = vals[0]
            grid[n] = vals
        else:
            grid[n] = [rng.choice([1, 2, 3, 'x', 'y', 0.5]) for _ in range(k)]
        total *= k
    return grid


def product(grid):
    out = [[]]
    for name, v in grid.items():
        if isinstance(v, dict) and '__range__' in v:
            vals = list(range(*v['__range__']))
        elif isinstance(v, list):
            vals = list(v)
        else:
            vals = [v]
        out = [row + [(name, x)] for row in out for x in vals]
    return [dict(r) for r in out]


def gen_spec(rng, sid, fault_ordinal=None, base=None):
    base_is_new = base is None
    if base is None:
        grid = gen_grid(rng)
        reps = rng.choice([1, 1, 2, 3])
        stop = rng.randint(1, 6) if rng.random() < 0.9 else 0
        lim = rng.choice([None, None, max(0, stop - rng.randint(1, 3)), stop, stop + 1, stop + 5])
        all_ids = ['c_main', 'c_aux', 'c_third'][:rng.randint(1, 3)]
        sel = rng.choice(['one', 'many'])
        collectors = rng.choice(all_ids) if sel == 'one' else rng.sample(all_ids, rng.randint(1, len(all_ids)))
        procs = rng.choice([1, 1, 2, 3, 4, 5, 6, 8, 12, 16, rng.randint(2, 16)])
        if rng.random() < 0.15:
            collectors = None             # no data requested: every execution must still run, and a failure must still surface
        use_pl = rng.random() < 0.4
        base = dict(grid=grid, repetitions=reps, stop=stop, max_timesteps=lim, collector_ids=all_ids, collectors=collectors, processes=procs,
                    use_parameter_list=use_pl, explicit_reps=rng.random() < 0.5,
                    pl_history=use_pl and rng.random() < 0.5,
                    rejected_first=(rng.choice([0, -1, '2', 2.5]) if rng.random() < 0.25 else None),
                    start_method=(rng.choice(['spawn', 'forkserver']) if procs > 1 and rng.random() < 0.12 else None),
                    pl_searched=use_pl and rng.random() < 0.35,
                    pl_from_dict=use_pl and rng.random() < 0.4, pl_warmup=(rng.choice([2, 3, 0]) if use_pl and rng.random() < 0.5 else None),
                    warmup=(rng.randint(1, 4) if rng.random() < 0.2 else 0),          # the model's constructor runs some timesteps itself
                    collector_style=rng.choice(['append', 'append', 'rebind']),          # how the fixture's collectors update their records
                    collector_priority=rng.choice([None, None, 0]))   # 0 = same priority as the completing system   # the ParameterList was built before and a parameter removed since
    spec = dict(base)
    spec['id'] = sid
    if base_is_new and rng.random() < 0.1:
        # plain replication: no parameters at all, only repetitions - more of them than twice the number of workers now and then
        spec['grid'] = {}
        spec['no_params'] = True
        spec['repetitions'] = rng.choice([1, 2, 3, 5, 9, 13, 20])
        spec['explicit_reps'] = True
        spec['pl_from_dict'] = spec['pl_history'] = spec['pl_searched'] = False
        spec['pl_warmup'] = None
        spec['rejected_first'] = None
        spec['processes'] = rng.choice([1, 2, 2, 3, 4])
        spec['start_method'] = None      # (the parameterless fixture finds its control file through the environment; a fork server started
        #                                   for an earlier batch of the same interpreter would hand its workers that batch's environment)
    if spec.get('warmup') and 'fault' not in spec and fault_ordinal is None and rng.random() < 0.6:
        # a step limit close to where the warm-up left the clock, completion well beyond both
        spec['max_timesteps'] = max(0, spec['warmup'] + rng.choice([-1, 0, 1, 2]))
        spec['stop'] = max(spec['stop'], spec['warmup'] + 3)
    spec['delays'] = [rng.choice([0, 0.001, 0.002, 0.003, 0.0005]) for _ in range(rng.randint(2, 7))]
    if fault_ordinal is not None:
        kind = rng.choice(['ctor', 'step'])
        lim = spec['max_timesteps']
        last = min(spec['stop'], (lim - 1) if lim is not None else 10 ** 9)
        if kind == 'step' and last < 0:
            kind = 'ctor'
        spec['fault'] = {'kind': kind, 'ordinal': fault_ordinal, 'tag': f'fault-{sid}-{fault_ordinal}',
                         'exc': rng.choice(['InjectedFault', 'InjectedFault', 'InjectedKeyError', 'InjectedLookupError', 'InjectedAttributeError',
                                            'InjectedStop', 'InjectedModelComplete', 'InjectedOSError', 'DeprecatedAliasCall']),
                         't': rng.randint(0, max(0, last)) if kind == 'step' else None,
                         'after_complete': kind == 'step' and rng.random() < 0.3}
    return spec


def to_jsonable(spec):
    s = dict(spec)
    g = {}
    for k, v in spec['grid'].items():
        g[k] = v
    s['grid'] = g
    return s


def run_child(ctx, specs):
    """Runs the batches in child interpreters.  A batch_run call that does not return within the per-batch watchdog makes the child
    dump its thread stacks and exit; the batch that hung is classified from that dump and the remaining batches continue in a
    fresh child."""
    here = os.path.dirname(os.path.dirname(os.path.abspath(__file__)))
    env = dict(os.environ, VERIF_REPO=repo_root(), PYTHONHASHSEED='0', PYTHONDONTWRITEBYTECODE='1')
    outs = {}
    todo = list(specs)
    assert len({s_['id'] for s_ in specs}) == len(specs), 'harness error: duplicate batch ids in one group'
    last = None
    rounds = 0
    while todo:
        rounds += 1
        if rounds > len(specs) + 3:
            raise Inconclusive('batch children keep dying without progress')
        # the child's scratch files (its control directories, too) live in a directory of this run that is removed whatever happens to it
        scratch = tempfile.mkdtemp(prefix='c15-run-')
        path = os.path.join(scratch, 'specs.json')
        try:
            with open(path, 'w') as f:
                json.dump(todo, f)
            try:
                last = subprocess.run(child_python() + [os.path.join(here, 'vlib', 'fixtures', 'batch_child.py'), path], capture_output=True,
                                      text=True, timeout=60 * len(todo) + 120, env=dict(env, TMPDIR=scratch), cwd=here)
            except subprocess.TimeoutExpired:
                raise Inconclusive('a batch child interpreter hung beyond its own watchdog')
        finally:
            shutil.rmtree(scratch, ignore_errors=True)
        started = None
        for line in last.stdout.splitlines():
            try:
                o = json.loads(line)
            except Exception:  # noqa
                continue
            if 'starting' in o:
                started = o['starting']
            elif 'id' in o:
                outs[o['id']] = o
                started = None
        remaining = [s for s in todo if s['id'] not in outs]
        if not remaining:
            break
        if started is None or len(remaining) == len(todo) and started != todo[0]['id']:
            return outs, last            # the child died outside a batch: reported by the caller as a crash
        hung = next(s for s in todo if s['id'] == started)
        err = last.stderr
        if 'Timeout (' in err:
            # a batch_run call that never returned.  Known mechanism: the error of a failed execution makes batch_run leave its
            # `with Pool(...)` block, Pool.terminate() then deadlocks inside CPython (task-handler thread blocked in put()).
            in_terminate = '_terminate_pool' in err and 'Batching.py' in err and 'batch_run' in err
            if in_terminate and hung.get('fault') is not None and hung['processes'] > 1:
                ctx.finding('pool-terminate-deadlock-after-worker-failure',
                            'batch_run hangs instead of raising: after a failed execution with processes > 1 the Pool.terminate() call '
                            'made on leaving the with-block can deadlock inside multiprocessing (error never reaches the caller)',
                            {'spec': {k: v for k, v in hung.items() if k != 'delays'}, 'stack_tail': err[-1200:]})
                outs[hung['id']] = {'id': hung['id'], 'hung_known': True}
            else:
                raise Inconclusive(f'a batch_run call hung outside the known Pool.terminate mechanism (batch {started}): {err[-600:]}')
        else:
            return outs, last            # crashed inside a batch without the watchdog: caller reports it
        todo = [s for s in todo if s['id'] not in outs]
    return outs, last


def check_batch(ctx, spec, out):
    combos = product(spec['grid'])
    reps = spec['repetitions']
    expected_params = combos * reps
    n = len(expected_params)
    lim = spec['max_timesteps']
    warm = spec.get('warmup') or 0
    # timesteps below the completion step are recorded; the batch stops stepping at the limit, the constructor's own warm-up steps are its own
    steps = list(range(min(spec['stop'], max(warm, lim) if lim is not None else 10 ** 9)))
    if warm:
        ctx.count('batches_whose_models_warm_up_in_their_constructor')
        if lim is not None and warm < lim < spec['stop']:
            ctx.count('step_limit_reached_after_a_warm_up')
    if spec.get('collector_style') == 'rebind':
        ctx.count('batches_whose_collectors_rebind_their_records')
    detail = dict(spec={k: v for k, v in spec.items() if k != 'delays'})
    ctx.count('batches')
    ctx.ev()
    if n == 0:
        ctx.count('batches_with_an_empty_product')
    if spec.get('no_params'):
        ctx.count('replication_batches_without_parameters')
        if n > 2 * spec['processes'] and spec['processes'] > 1:
            ctx.count('replication_batches_with_more_runs_than_twice_the_workers')
    if lim is not None and lim < spec['stop']:
        ctx.count('limit_below_completion')
    if lim is not None and lim > spec['stop']:
        ctx.count('limit_above_completion')
    if spec['processes'] > 1:
        ctx.count('multi_process_batches')
    if spec.get('pl_history'):
        ctx.count('parameter_list_with_history')
    if spec.get('start_method'):
        ctx.count('batches_with_spawned_workers')
    if spec.get('rejected_first') is not None:
        ctx.count('batches_after_a_refused_batch_run_call')
    if spec.get('pl_from_dict'):
        ctx.count('parameter_list_from_a_dict_reused_by_the_caller')
    if spec.get('pl_warmup') is not None:
        ctx.count('parameter_list_used_for_an_earlier_batch')
    if spec.get('pl_searched') and n:
        ctx.count('parameter_list_used_for_an_earlier_grid_search')
    if spec.get('collector_priority') is not None:
        ctx.count('collectors_at_completer_priority')
    ctx.state(('procs', spec['processes']))
    pc = spec['processes']
    ctx.count('procs_1' if pc == 1 else ('procs_2_4' if pc <= 4 else ('procs_5_8' if pc <= 8 else 'procs_9_16')))
    fault = spec.get('fault')
    if out.get('hung_known'):
        ctx.count('fault_batches_hung_in_pool_terminate')
        return
    if fault is not None and fault.get('exc') == 'DeprecatedAliasCall':
        from vlib.engine import current_mode
        ctx.count('batches_with_a_run_that_calls_a_deprecated_alias')
        if current_mode() != 'warnings':
            fault = None                # only a warning in this interpreter: an ordinary batch
        else:
            ctx.count('fault_batches')
            if 'raised' not in out or not any(c['type'] == 'DeprecationWarning' for c in out['raised'].get('chain', [out['raised']])):
                raise CaseViolation(f'warnings are errors in this interpreter and execution #{fault["ordinal"]} called a deprecated alias: the '
                                    f'DeprecationWarning raised inside that execution did not reach the caller of batch_run', got=out.get('raised'),
                                    got_results=len(out.get('result') or []), **detail)
            ctx.count('faults_propagated')
            return
    if out.get('hung_known'):
        ctx.count('fault_batches_hung_in_pool_terminate')
        return
    if fault is not None:
        ctx.count('fault_batches')
        if 'raised' not in out:
            raise CaseViolation(f'an exception injected into execution #{fault["ordinal"]} ({fault["kind"]}) did not reach the caller of batch_run',
                                got_results=len(out.get('result') or []), **detail)
        r = out['raised']
        # the property asks that the error REACHES the caller: the injected exception itself, or an error raised from it
        if not any(c['tag'] == fault['tag'] for c in r.get('chain', [r])):
            raise CaseViolation('the caller received an unrelated exception, not the one raised by the failing execution', raised=r, **detail)
        if r['type'] == fault.get('exc', 'InjectedFault'):
            ctx.count('faults_propagated_same_type')
        ctx.count('faults_propagated')
        ctx.count(f'fault_{fault["kind"]}')
        if fault.get('after_complete'):
            ctx.count('faults_raised_right_after_the_run_completed_itself')
        ctx.count('fault_exc_' + fault.get('exc', 'InjectedFault'))
        ctx.distinct(('fault', json.dumps(spec['grid'], sort_keys=True), reps, spec['processes'], fault['ordinal'], fault['kind']))
        return
    if 'raised' in out:
        raise CaseViolation(f'batch_run raised {out["raised"]} although no execution failed', **detail)
    res = out['result']
    if spec['collectors'] is None:
        ctx.count('no_collector_batches')
        check(res is None or res == [], f'batch_run without collectors returned {res!r}', **detail)
        check(out['constructions'] == n, f'{out["constructions"]} models were built for {n} executions (no collectors requested)', **detail)
        return
    check(isinstance(res, list), 'batch_run did not return a list', **detail)
    if len(res) != n:
        raise CaseViolation(f'batch_run returned {len(res)} results for {len(combos)} combinations x {reps} repetitions', **detail)
    check(out['constructions'] == n, f'{out["constructions"]} models were built for {n} executions', **detail)
    check(not out['aliasing'], 'two results are the same list object', **detail)
    want_ids = [spec['collectors']] if isinstance(spec['collectors'], str) else list(spec['collectors'])
    seen_uuid = {}
    got_params, ordinals, pids = [], [], set()
    for ri, item in enumerate(res):
        if isinstance(spec['collectors'], str):
            check(isinstance(item, list), 'single-collector result is not that collector\'s record list', item=item, **detail)
            per = {spec['collectors']: item}
        else:
            check(isinstance(item, dict) and sorted(item.keys()) == sorted(want_ids), f'multi-collector result keys {sorted(item) if isinstance(item, dict) else item} != requested {sorted(want_ids)}', **detail)
            per = item
            ctx.count('multi_collector_results')
        uu = None
        for cid, recs in per.items():
            ts = [r['t'] for r in recs]
            if ts != steps:
                raise CaseViolation(f'an execution recorded timesteps {ts}; with completion at {spec["stop"]} and limit {lim}' + (f' (and {warm} warm-up steps run by its constructor)' if warm else '') + f' it must run exactly {steps}',
                                    collector=cid, **detail)
            for r in recs:
                ctx.count('records_checked')
                check(r['collector'] == cid, f'record of collector {r["collector"]!r} found in the result of {cid!r} (mixed results)', **detail)
                check(r['t'] == r['model_t'], 'model.timestep != scheduler timestep inside a batch run', **detail)
                ctx.count('records_with_class_level_state_checked')
                check(r.get('class_state') == r['uuid'], 'an execution ran while the class-level state its constructor had set up belonged to ANOTHER execution '
                      '(executions are not one fresh model built and run at a time: their records mix)', record=r, **detail)
                if uu is None:
                    uu = (r['uuid'], r['params'], r['ordinal'], r['pid'])
                elif uu[0] != r['uuid']:
                    raise CaseViolation('one result contains records of two different executions (mixed results)', uuids=[uu[0], r['uuid']], **detail)
        if uu is None:        # no timestep recorded (limit 0 or completion at 0): cannot identify the run, only count it
            ctx.count('unidentifiable_results')
            continue
        if uu[0] in seen_uuid:
            raise CaseViolation('the same execution appears in two results (duplicated result)', **detail)
        seen_uuid[uu[0]] = ri
        got_params.append(uu[1])
        ordinals.append(uu[2])
        pids.add(uu[3])
        ctx.count('executions_checked')
    if len(got_params) == n:
        key = lambda d: json.dumps(d, sort_keys=True, default=str)  # noqa
        if sorted(map(key, got_params)) != sorted(map(key, expected_params)):
            raise CaseViolation('the multiset of executed parameter combinations differs from product x repetitions',
                                expected=expected_params[:12], observed=got_params[:12], **detail)
        if spec['processes'] == 1:
            ctx.count('serial_order_checks')
            if list(map(key, got_params)) != list(map(key, expected_params)):
                raise CaseViolation('with one process the results must follow product order', expected=expected_params[:12],
                                    observed=got_params[:12], **detail)
        if ordinals != sorted(ordinals):
            ctx.count('reordered_batches')
        if not isinstance(spec['collectors'], str):
            ctx.count('multi_collector_batches')
        ctx.state(('pids', len(pids)))
        if spec['processes'] >= 2 and n >= 4 and ordinals != sorted(ordinals):
            ctx.distinct(('batch', json.dumps(spec['grid'], sort_keys=True), reps, spec['processes'], tuple(ordinals)))


def case_group(ctx, case):
    rng = ctx.rng('group', case['i'])
    specs = []
    if case['i'] % 2 == 0:
        for k in range(GROUP):
            specs.append(gen_spec(rng, f'g{case["i"]}b{k}'))
    else:
        # fault enumeration: one base batch, a failing execution at EVERY ordinal, for 1 and k processes
        base = gen_spec(rng, 'base')
        n = len(product(base['grid'])) * base['repetitions']
        k = rng.choice([2, 3, 4, 8])
        specs.append(dict(base, id=f'g{case["i"]}ok'))
        for procs in (1, k):
            for ordn in range(n):
                b = dict(base, processes=procs)
                specs.append(gen_spec(rng, f'g{case["i"]}p{procs}f{ordn}', fault_ordinal=ordn, base=b))
        ctx.count('fault_enumerations')
    # children of at most GROUP*2 batches
    for j in range(0, len(specs), 12):
        chunk = specs[j:j + 12]
        # JSON cannot carry range objects: encode as dict marker, child decodes
        outs, proc = run_child(ctx, [encode(s) for s in chunk])
        for s in chunk:
            if s['id'] not in outs:
                raise CaseViolation('a batch crashed its interpreter / produced no result', spec={k: v for k, v in s.items() if k != 'delays'},
                                    stderr=proc.stderr[-1500:])
            check_batch(ctx, s, outs[s['id']])
    if case['i'] < 2:
        s = specs[0]
        ctx.sample({'kind': 'batch', 'grid': s['grid'], 'repetitions': s['repetitions'], 'stop': s['stop'], 'max_timesteps': s['max_timesteps'],
                    'collectors': s['collectors'], 'processes': s['processes'], 'n_batches_in_group': len(specs),
                    'fault': specs[-1].get('fault')})



def case_big(ctx, case):
    """Scale regime: batches of 70-260 executions on 2-4 processes (with and without a failing execution, incl. StopIteration), and runs of
    hundreds to a thousand timesteps with step limits that are not round numbers."""
    rng = ctx.rng('big', case['i'])
    specs = []
    style = case['i'] % 3
    if style == 0:      # many executions
        k = rng.choice([70, 96, 130, 260])
        procs = rng.choice([2, 2, 3, 4])
        base = dict(grid={'alpha': {'__range__': [0, k]}}, repetitions=1, stop=2, max_timesteps=None, collector_ids=['c_main'], collectors='c_main',
                    processes=procs, use_parameter_list=False, explicit_reps=False, pl_history=False, collector_priority=None)
        specs.append(dict(base, id=f'B{case["i"]}ok', delays=[0]))
        for ordn in sorted(rng.sample(range(k), 3)):
            f = dict(base, id=f'B{case["i"]}f{ordn}', delays=[0])
            f['fault'] = {'kind': 'step', 'ordinal': ordn, 'tag': f'bigfault-{ordn}', 't': 1,
                          'exc': rng.choice(['InjectedStop', 'InjectedStop', 'InjectedFault', 'InjectedKeyError'])}
            specs.append(f)
        ctx.count('big_batches_many_runs')
    elif style == 1:    # long runs, awkward limits
        stop = rng.choice([700, 1000, 1500])
        for j_, lim in enumerate((rng.choice([257, 300, 513, 699]), stop - 1, None)):
            specs.append(dict(grid={'alpha': [1, 2]}, repetitions=1, stop=stop, max_timesteps=lim, collector_ids=['c_main'], collectors='c_main',
                              processes=rng.choice([1, 2]), use_parameter_list=False, explicit_reps=False, pl_history=False,
                              collector_priority=None, id=f'B{case["i"]}L{j_}_{lim}', delays=[0]))      # (ids must be unique within the group: results are matched by id)
        ctx.count('big_batches_long_runs')
    else:               # many repetitions
        reps = rng.choice([40, 70])
        specs.append(dict(grid={'alpha': [1, 2], 'beta': 'x'}, repetitions=reps, stop=1, max_timesteps=None, collector_ids=['c_main', 'c_aux'],
                          collectors=['c_main', 'c_aux'], processes=rng.choice([1, 3]), use_parameter_list=True, explicit_reps=True,
                          pl_history=False, collector_priority=None, id=f'B{case["i"]}R{reps}', delays=[0]))
        ctx.count('big_batches_many_repetitions')
    outs, proc = run_child(ctx, specs)
    for s_ in specs:
        if s_['id'] not in outs:
            raise CaseViolation('a large batch crashed its interpreter / produced no result', spec={k: v for k, v in s_.items() if k != 'delays'},
                                stderr=proc.stderr[-1500:])
        check_batch(ctx, s_, outs[s_['id']])


def encode(spec):
    return spec


def run_case(ctx, case):
    (case_big if case.get('kind') == 'big' else case_group)(ctx, case)


def run(ctx):
    for i in range(N_GROUPS[ctx.tier]):
        if ctx.mine(i) and not ctx.full():
            ctx.run_case({'kind': 'group', 'i': i}, run_case)
    for i in range(N_BIG[ctx.tier]):
        if ctx.mine(i) and not ctx.full():
            ctx.run_case({'kind': 'big', 'i': i}, run_case)


def replay(ctx, case):
    ctx.run_case(case, run_case)
