"""C09 - cell coordinates and cell ids are in one-to-one correspondence (exhaustive small scope).

Every DiscreteWorld(w,h,d) with extents 0..N, every LineWorld(1..N), every GridWorld(1..N,1..N): every in-range triple
(a zero-extent axis has the single coordinate 0) and every just-outside triple on every axis and side.
"""
import itertools

from vlib.engine import CaseViolation
from vlib.util import check, expect_raises

PROP = 'C09'
LEVEL = 'exploration'
SHARDS = {'quick': 4, 'thorough': 16}
TIMEOUT = {'quick': 300, 'thorough': 3000}
N = {'quick': 4, 'thorough': 10}
RULE = ('cases: every grid-world shape with extents 0..N per axis (DiscreteWorld), LineWorld(1..N), GridWorld(1..N, 1..N); per shape every '
        'in-range coordinate triple and, per axis and side, every just-outside triple (-1 / one past the end, other axes in range). '
        'Oracle: ids (discrete_grid_pos_to_id with the world\'s extents) are pairwise distinct and exactly 0..cells-1; cells["pos"][id] '
        'is the coordinate; get_cell(x,y,z) is that very row (row label = id, pos and the distinguishing cell-component values equal '
        'to the coordinate\'s); outside coordinates raise IndexError. Non-trivial shape: >=2 cells; distinct by (world class, extents).')
ASSUMPTIONS = ['exhaustive only for extents <= N', 'cell ids are obtained with discrete_grid_pos_to_id(x, y, width, z, height) as documented']
FLOORS = {'quick': {'cell_deprecated_alias': 1810, 'id_deprecated_alias': 1329, 'generators_that_change_the_table_between_two_lookups': 96, 'cases_in_mode_optimised': 24, 'rows_checked_in_a_deep_copy_of_the_world': 1062, 'lookups_from_inside_a_generator': 960, 'generators_failing_part_way': 98, 'sibling_world_rows_checked': 739, 'id_by_keywords': 1593, 'id_with_defaults': 1579, 'id_numpy_coordinates': 3031, 'cell_y_omitted_z_keyword': 709, 'cell_numpy_coordinates': 1804, 'cell_defaults': 787, 'cell_by_keywords': 1743, 'shapes': 72, 'cells_checked': 720, 'outside_probes': 2000, 'cells_rechecked_after_update': 700, 'wrapping_shapes': 72, 'big_shapes': 2, 'big_cells': 12566, 'cells_rechecked_after_regeneration': 500, 'shapes_with_zero_axis': 30, 'line_worlds': 2,
                    'grid_worlds': 8, 'reach:Environments.DiscreteWorld.get_cell': 2700, 'reach:Environments.discrete_grid_pos_to_id': 1400},
          'thorough': {'shapes': 500, 'cells_checked': 20000}}
EXHAUSTIVE = {'quick': 'all grid shapes with extents 0..4 (125 DiscreteWorld, 4 LineWorld, 16 GridWorld) non-wrapping and wrapping, all in-range and just-outside coordinates',
              'thorough': 'all grid shapes with extents 0..10 (1331 DiscreteWorld, 10 LineWorld, 100 GridWorld) non-wrapping, wrapping (DiscreteWorld up to 5), all in-range and just-outside coordinates'}


def _wrap_kw(wrap):
    """wrap_env=False is the documented default: half of the non-wrapping worlds are built without naming it."""
    _wrap_kw.n += 1
    return {} if (wrap is False and _wrap_kw.n % 2) else {'wrap_env': wrap}


_wrap_kw.n = 0


def shapes(n):
    for w, h, d in itertools.product(range(n + 1), repeat=3):
        yield {'cls': 'DiscreteWorld', 'ext': [w, h, d]}
    for w in range(1, n + 1):
        yield {'cls': 'LineWorld', 'ext': [w, 0, 0]}
    for w, h in itertools.product(range(1, n + 1), repeat=2):
        yield {'cls': 'GridWorld', 'ext': [w, h, 0]}
    # the same for wrapping (toroidal) worlds: wrapping concerns agents' moves, cells outside the grid are still rejected
    for w, h, d in itertools.product(range(min(n, 5) + 1), repeat=3):
        yield {'cls': 'DiscreteWorld', 'ext': [w, h, d], 'wrap': True}
    for w in range(1, n + 1):
        yield {'cls': 'LineWorld', 'ext': [w, 0, 0], 'wrap': True}
    for w, h in itertools.product(range(1, n + 1), repeat=2):
        yield {'cls': 'GridWorld', 'ext': [w, h, 0], 'wrap': True}
    # scale regime: worlds with thousands of cells (not exhaustive: a fixed list of large shapes of every kind)
    big = [('DiscreteWorld', [17, 17, 17]), ('DiscreteWorld', [0, 80, 70]), ('GridWorld', [100, 50, 0]), ('LineWorld', [5000, 0, 0]),
           ('DiscreteWorld', [70, 0, 66])]
    if n > 4:
        big += [('DiscreteWorld', [33, 9, 31]), ('DiscreteWorld', [3, 70, 40]), ('GridWorld', [64, 65, 0]), ('DiscreteWorld', [0, 0, 4100]),
                ('DiscreteWorld', [21, 20, 19]), ('GridWorld', [300, 40, 0])]
    for cls, ext in big:
        yield {'cls': cls, 'ext': ext, 'big': True}


def build(case):
    import ECAgent.Core as core
    import ECAgent.Environments as envs
    m = core.Model()
    w, h, d = case['ext']
    wrap = bool(case.get('wrap'))
    if case['cls'] == 'DiscreteWorld':
        env = envs.DiscreteWorld(m, w, h, d, **_wrap_kw(wrap))
    elif case['cls'] == 'LineWorld':
        env = envs.LineWorld(m, w, **_wrap_kw(wrap))
    else:
        env = envs.GridWorld(m, w, h, **_wrap_kw(wrap))
    return envs, env


def code(pos):
    return pos[0] + 100 * pos[1] + 10000 * pos[2]


def spell_id(envs, rng, ctx, x, y, z, width, height):
    """discrete_grid_pos_to_id(x, y, width, z, height) through one of its spellings: positional, keywords, defaults for zeros, and the
    coordinates as numpy integers (what np.argwhere / array indexing hand out)."""
    import numpy as np
    k = rng.randrange(7)
    if k == 6:
        from vlib import reps
        ctx.count('id_deprecated_alias')
        if rng.random() < 0.5:        # the alias has the same defaults
            kw = {n_: v_ for n_, v_ in (('y', y), ('z', z)) if v_}
            return reps.deprecated_call(envs.discreteGridPosToID, x, width=width, height=height, **kw)
        return reps.deprecated_call(envs.discreteGridPosToID, x, y, width, z, height)
    if k == 0 or (k >= 4 and (x, y, z) == (0, 0, 0)):
        return envs.discrete_grid_pos_to_id(x, y, width, z, height)
    if k == 1:
        ctx.count('id_by_keywords')
        return envs.discrete_grid_pos_to_id(height=height, z=z, width=width, y=y, x=x)
    if k == 2:
        ctx.count('id_with_defaults')
        kw = {}
        if y:
            kw['y'] = y
        if z:
            kw['z'] = z
        if width:
            kw['width'] = width
        if height:
            kw['height'] = height
        return envs.discrete_grid_pos_to_id(x, **kw)
    if k == 3:
        ctx.count('id_mixed')
        return envs.discrete_grid_pos_to_id(x, y, width, z=z, height=height)
    ctx.count('id_numpy_coordinates')
    T = np.int64 if k == 4 else np.intp
    return int(envs.discrete_grid_pos_to_id(T(x), T(y), width, T(z), height))


def spell_cell(env, rng, ctx, x, y, z):
    """get_cell(x, y, z) through one of its spellings (the omitted coordinates are the zero ones only)."""
    import numpy as np
    k = rng.randrange(7)
    if k == 0:
        return env.get_cell(x, y, z)
    if k == 1:
        ctx.count('cell_by_keywords')
        return env.get_cell(z=z, x=x, y=y)
    if k == 2:
        ctx.count('cell_numpy_coordinates')
        return env.get_cell(np.int64(x), np.int64(y), np.int64(z))
    if k == 3 and y == 0:
        ctx.count('cell_y_omitted_z_keyword')
        return env.get_cell(x, z=z)
    if k == 4 and z == 0:
        ctx.count('cell_defaults')
        return env.get_cell(x, y) if y else env.get_cell(x)
    if k == 5 and x == 0 == y:
        ctx.count('cell_defaults')
        return env.get_cell(0, z=z)
    if k == 6:
        import warnings
        with warnings.catch_warnings():
            warnings.simplefilter('ignore')
            ctx.count('cell_deprecated_alias')
            if z == 0 and rng.random() < 0.5:      # the alias has the same defaults
                return env.getCell(x, y) if y else env.getCell(x)
            return env.getCell(x, y, z)
    return env.get_cell(x, y, z)


def run_case(ctx, case):
    import random as _r
    rng_ = _r.Random(str(case))
    envs, env = build(case)
    w, h, d = case['ext']
    rng_ax = [range(max(e, 1)) for e in (w, h, d)]
    ncells = len(rng_ax[0]) * len(rng_ax[1]) * len(rng_ax[2])
    # a world of the same shape that belongs to another model exists already and carries cell components of its own
    _, sibling = build(case)
    sibling.add_cell_component('code', lambda pos, cells: code(pos) + 5000)
    sibling.add_cell_component('only_sibling', lambda pos, cells: -code(pos))
    env.add_cell_component('code', lambda pos, cells: code(pos))
    env.add_cell_component('tag', lambda pos, cells: f'{pos[0]}:{pos[1]}:{pos[2]}')
    # a cell-component generator that fails part-way (the caller catches the error and goes on with the same world) ...
    from vlib import faults
    calls = [0]
    stop_after = rng_.randrange(ncells) if ncells else 0
    fault_cls = faults.pick(rng_)

    def failing(pos, cells):
        calls[0] += 1
        if calls[0] > stop_after:
            raise faults.make(fault_cls, 'generator fails part-way')
        return 1

    _, gen_err = faults.attempt(env.add_cell_component, 'broken', failing)
    ctx.count('generators_failing_part_way')
    if 'broken' in env.cells.columns:
        env.remove_cell_component('broken')          # (whether a failed add leaves a column is C11's business; here the world is simply used on)
    # ... and one that looks cells up while it runs, also just outside the grid (that is refused as always)
    leaks = []

    def probing(pos, cells):
        for k_ in range(3):
            for bad_ in (-1, max(case['ext'][k_], 1)):
                c_ = list(pos)
                c_[k_] = bad_
                try:
                    r_ = env.get_cell(*c_)
                    leaks.append((tuple(c_), tuple(r_['pos'])))
                except IndexError:
                    pass
        return env.get_cell(*pos).name

    if ncells <= 400:
        env.add_cell_component('probe', probing)
        ctx.count('lookups_from_inside_a_generator', ncells)
        if leaks:
            raise CaseViolation(f'get_cell{leaks[0][0]} called from inside a cell-component generator returned the row of {leaks[0][1]} instead of '
                                f'raising IndexError', shape=case, n_unrejected=len(leaks))
        check(env.cells['probe'].tolist() == list(range(ncells)), 'get_cell(pos).name seen from inside a generator is not the cell id', shape=case)
        env.remove_cell_component('probe')
        # ... and one that changes the table from inside (creates a prerequisite component on demand, drops a scratch one) between two
        # lookups of the same cell: every lookup returns the cell's row with the components the cell has THEN
        stale = []
        drop_at = rng_.randrange(ncells)
        form = rng_.choice(['list', 'callable', 'array'])
        env.add_cell_component('scratch', [0] * ncells)

        def lazy(pos, cells):
            r0 = env.get_cell(*pos)
            if 'prereq' not in env.cells.columns:
                vals = [code(p) + 7 for p in env.cells['pos']]
                if form == 'list':
                    env.add_cell_component('prereq', vals)
                elif form == 'array':
                    import numpy as _np
                    env.add_cell_component('prereq', _np.array(vals))
                else:
                    env.add_cell_component('prereq', lambda p, c: code(p) + 7)
                r1 = env.get_cell(*pos)
                if 'prereq' not in r1.index or r1['prereq'] != code(pos) + 7:
                    stale.append((tuple(pos), 'lacks the component added since the previous lookup', sorted(map(str, r1.index))))
            if r0.name == drop_at:
                env.remove_cell_component('scratch')
                r2 = env.get_cell(*pos)
                if 'scratch' in r2.index:
                    stale.append((tuple(pos), 'still shows the component removed since the previous lookup', sorted(map(str, r2.index))))
            r3 = env.get_cell(*pos)
            if tuple(r3['pos']) != tuple(pos) or r3.get('prereq') != code(pos) + 7 or r3['code'] != code(pos):
                stale.append((tuple(pos), 'wrong values', r3.to_dict()))
            return (r3.get('prereq') or 0) * 2

        env.add_cell_component('lazy', lazy)
        ctx.count('generators_that_change_the_table_between_two_lookups')
        if stale:
            raise CaseViolation(f'get_cell{stale[0][0]} called from inside a cell-component generator {stale[0][1]}: not the cell\'s row with all its '
                                f'cell-component values', shape=case, row=stale[0][2], n=len(stale), prerequisite_added_as=form)
        check(env.cells['lazy'].tolist() == [2 * (code(p) + 7) for p in env.cells['pos']], 'values produced by a generator that looked cells up are wrong', shape=case)
        for name_ in ('lazy', 'prereq'):
            env.remove_cell_component(name_)
    check(sorted(env.cells.columns) == ['code', 'pos', 'tag'], f'the world\'s cell table has the columns {sorted(env.cells.columns)}: cell components of '
          f'another world of the same shape show up in it', shape=case)
    check(len(env.cells) == ncells, f'world has {len(env.cells)} cells, expected {ncells}', shape=case)
    table = env.cells['pos']
    seen = {}
    for z in rng_ax[2]:
        for y in rng_ax[1]:
            for x in rng_ax[0]:
                i = spell_id(envs, rng_, ctx, x, y, z, env.width, env.height)
                ctx.ev()
                ctx.count('cells_checked')
                if not (isinstance(i, int) and 0 <= i < ncells):
                    raise CaseViolation(f'id {i!r} of ({x},{y},{z}) outside 0..{ncells - 1}', shape=case)
                if i in seen:
                    raise CaseViolation(f'coordinates {seen[i]} and {(x, y, z)} share id {i}', shape=case)
                seen[i] = (x, y, z)
                if tuple(table[i]) != (x, y, z):
                    raise CaseViolation(f'position table maps id {i} to {table[i]}, not to ({x},{y},{z})', shape=case)
                row = spell_cell(env, rng_, ctx, x, y, z)
                if tuple(row['pos']) != (x, y, z) or row['code'] != code((x, y, z)) or row['tag'] != f'{x}:{y}:{z}' or row.name != i:
                    raise CaseViolation(f'get_cell({x},{y},{z}) returned row {row.name} pos={row["pos"]} code={row["code"]}', shape=case)
    check(len(seen) == ncells, 'ids do not cover 0..cells-1', shape=case)
    # a deep copy of the world (copy.deepcopy(model).environment - what a saved / restored or duplicated set-up works with) is a world
    # like any other: same cells, same rows
    import copy as _copy
    twin_env = _copy.deepcopy(env)
    for i in list(seen)[:: max(1, ncells // 60)]:
        x, y, z = seen[i]
        row = twin_env.get_cell(x, y, z)
        ctx.count('rows_checked_in_a_deep_copy_of_the_world')
        if tuple(row['pos']) != (x, y, z) or row['code'] != code((x, y, z)) or row.name != i:
            raise CaseViolation(f'in a deep copy of the world get_cell({x},{y},{z}) returned row {row.name} pos={row["pos"]} code={row["code"]}', shape=case)
    k_ = rng_.randrange(3)
    bad_ = [0, 0, 0]
    bad_[k_] = len(rng_ax[k_])
    expect_raises(IndexError, f'get_cell{tuple(bad_)} outside shape {case} in a deep copy of the world', twin_env.get_cell, *bad_)
    if case.get('big'):
        ctx.count('big_shapes')
        ctx.count('big_cells', ncells)
        # after thousands of lookups the cells looked up first are looked up again (nothing else touched in between)
        for i in list(range(0, 12)) + [ncells // 2, ncells - 1]:
            x, y, z = seen[i]
            row = env.get_cell(x, y, z)
            if tuple(row['pos']) != (x, y, z) or row['code'] != code((x, y, z)) or row.name != i:
                raise CaseViolation(f'repeated get_cell({x},{y},{z}) after {ncells} other lookups returned row {row.name} pos={row["pos"]}', shape=case)
    # models update cell values in place (env.cells[name] = ..., the documented 1-D arrays): a later lookup must show them
    env.cells['code'] = [code(p) + 7 for p in [tuple(q) for q in table.tolist()]]
    for i, (x, y, z) in seen.items():
        row = env.get_cell(x, y, z)
        ctx.ev()
        ctx.count('cells_rechecked_after_update')
        if row['code'] != code((x, y, z)) + 7 or tuple(row['pos']) != (x, y, z):
            raise CaseViolation(f'get_cell({x},{y},{z}) does not show the cell\'s current component value after the table was updated '
                                f'(got {row["code"]}, table holds {code((x, y, z)) + 7})', shape=case)
    # ... and a component regenerated under its old name through add_cell_component replaces the values, nothing else
    env.add_cell_component('code', lambda pos, cells: code(pos) + 11)
    for i, (x, y, z) in list(seen.items())[:: max(1, ncells // 16)]:
        row = env.get_cell(x, y, z)
        ctx.count('cells_rechecked_after_regeneration')
        if not (len(row) == 3 and row['code'] == code((x, y, z)) + 11):
            raise CaseViolation(f'after adding the component "code" again, get_cell({x},{y},{z}) returned {dict(row) if len(row) < 6 else len(row)} '
                                f'instead of the cell\'s three values', shape=case)
    if ncells:
        i0 = ncells // 2
        env.cells.loc[i0, 'tag'] = 'changed'
        x, y, z = seen[i0]
        check(env.get_cell(x, y, z)['tag'] == 'changed', f'get_cell({x},{y},{z}) does not show a single-cell update', shape=case)
    # just outside, every axis and side, the other axes ranging over all in-range values
    for k in range(3):
        others = [rng_ax[j] for j in range(3) if j != k]
        for bad in (-1, len(rng_ax[k])):
            combos = itertools.product(*others)
            if case.get('big'):
                combos = [tuple(rng_.choice(list(r)) for r in others) for _ in range(40)]
            for o in combos:
                c = list(o)
                c.insert(k, bad)
                expect_raises(IndexError, f'get_cell{tuple(c)} outside shape {case}', spell_cell, env, rng_, ctx, *c)
                ctx.ev()
                ctx.count('outside_probes')
    # ... and the other world still holds its own values, whatever we did to ours
    check(sorted(sibling.cells.columns) == ['code', 'only_sibling', 'pos'], f'the other world of the same shape now has the columns '
          f'{sorted(sibling.cells.columns)}', shape=case)
    for i in list(seen)[:: max(1, ncells // 12)]:
        x, y, z = seen[i]
        row = sibling.get_cell(x, y, z)
        ctx.count('sibling_world_rows_checked')
        if row['code'] != code((x, y, z)) + 5000 or row['only_sibling'] != -code((x, y, z)) or tuple(row['pos']) != (x, y, z):
            raise CaseViolation(f'cell ({x},{y},{z}) of ANOTHER world of the same shape now reads code={row["code"]} (its own value is '
                                f'{code((x, y, z)) + 5000}): the two worlds share cell values', shape=case)
    ctx.count('shapes')
    if case.get('wrap'):
        ctx.count('wrapping_shapes')
    if 0 in case['ext'] and case['cls'] == 'DiscreteWorld':
        ctx.count('shapes_with_zero_axis')
    ctx.count({'LineWorld': 'line_worlds', 'GridWorld': 'grid_worlds', 'DiscreteWorld': 'discrete_worlds'}[case['cls']])
    if ncells >= 2:
        ctx.distinct((case['cls'], tuple(case['ext']), bool(case.get('wrap'))))
    ctx.state((case['cls'], tuple(case['ext']), bool(case.get('wrap'))))


def run(ctx):
    for idx, case in enumerate(shapes(N[ctx.tier])):
        if ctx.mine(idx) and not ctx.full():
            ctx.run_case(case, run_case)
            if idx in (9, 77, 130):
                ctx.sample({'shape': case, 'cells': max(case['ext'][0], 1) * max(case['ext'][1], 1) * max(case['ext'][2], 1)})


def replay(ctx, case):
    ctx.run_case(case, run_case)
