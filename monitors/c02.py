"""C02 - a system runs exactly in its start/end/frequency window; one step = +1.

Execution log (t, id) of instrumented systems on real Models vs the window predicate; clocks after every call;
twin model stepped one-by-one (execute(n) == n single steps); invalid-n probes at random states; clock-warp across the
default 'forever' end; exhaustive (start, end, frequency, t) box with one system.
"""
import sys
from collections import Counter

from vlib.engine import CaseViolation
from vlib.util import check, expect_raises

PROP = 'C02'
LEVEL = 'exploration'
SHARDS = {'quick': 4, 'thorough': 16}
TIMEOUT = {'quick': 300, 'thorough': 3000}
N_SCRIPTS = {'quick': 1200, 'thorough': 100000}
N_LONG = {'quick': 240, 'thorough': 20000}       # scale regime: 900-1600 timesteps each
BOX = {'quick': dict(starts=range(-3, 4), ends=range(-2, 7), freqs=range(1, 5), T=22),
       'thorough': dict(starts=range(-6, 7), ends=range(-3, 17), freqs=range(1, 8), T=40)}
RULE = ('cases: (a) seeded scripts: 1-8 systems with start in [-6,12], frequency in [1,7], end in {default, start-3..start+15} '
        '(so end<start occurs), registered/removed at chunk boundaries during timesteps 0..~60, some advance requests cut short by a system that raises - exception or KeyboardInterrupt-like - with the caller carrying on (identifiers also as str-subclass instances, window numbers also as numpy integers, falsy system objects, models with a quiet user logger), advanced by a random mix of '
        'execute(), execute(n<=6) and systems.execute_systems(), each replayed one step at a time on a twin model, with '
        'invalid-n probes at random states; (b) clock-warp scripts crossing sys.maxsize; (c) every (start,end,frequency) of '
        'a box with one system over timesteps 0..T (exhaustive); (e) long runs: 900-1600 timesteps, frequencies up to 200, ends on and around 256/512/768/1024, execute(n) with n up to the whole run, long stretches without registry changes; (f) self-retirement scripts: systems that remove themselves with clean_up() from inside execute(), their identifier taken over later by a new object with another window; (d) spawner scripts: a highest-priority system registers/removes '
        'windowed systems in the middle of multi-step calls (the system added at t may run 0/1 times at t). Oracle per (t, system): ran exactly once iff registered and '
        'start<=t<=end and (t-start)%frequency==0. Non-trivial script: contains a window with negative start or end<start or '
        'late registration AND a multi-step call; distinct by (windows, chunking) signature.')
ASSUMPTIONS = ['systems only log (timestep, id) in execute()', 'clock-warp cases assign SystemManager.timestep (documented attribute)',
               'bool / numpy integer n may be either rejected or treated as that many steps (the property only requires '
               'rejecting non-integers and n<1)']
FLOORS = {'quick': {'systems_registered_removed_and_registered_again_in_one_timestep': 136, 'spawners_that_are_not_due_every_timestep': 63, 'pattern_like_or_unnormalised_ids': 900, 'cases_in_mode_warnings': 215, 'cases_in_mode_optimised': 215, 'advance_requests_cut_short_by_a_failing_system': 468, 'ids_taken_over_after_self_retirement': 491, 'retire_cases': 133, 'falsy_system_objects': 715, 'decisions_ran': 5000, 'decisions_not_ran': 5000, 'multi_step_calls': 1000, 'rejected_n_value': 300,
                    'rejected_n_type': 300, 'windows_negative_start': 300, 'windows_end_before_start': 100,
                    'late_registrations': 300, 'warp_cases': 20, 'box_windows': 140, 'collector_windows': 500, 'long_runs': 120, 'long_run_timesteps': 100000, 'spawn_cases': 200,
                    'mid_step_registry_changes': 1000,
                    'reach:Core.Model.execute': 1000, 'reach:Core.SystemManager.execute_systems': 5000},
          'thorough': {'decisions_ran': 500000, 'decisions_not_ran': 500000, 'multi_step_calls': 100000,
                       'rejected_n_value': 30000, 'rejected_n_type': 30000, 'box_windows': 950}}
EXHAUSTIVE = {}


def _fixtures():
    import ECAgent.Core as core

    class WinSystem(core.System):
        def __init__(self, id, model, log, **kw):
            super().__init__(id, model, **kw)
            self.log = log

        def execute(self):
            t = self.model.systems.timestep
            if self.model.timestep != t:          # the model-level clock must equal the scheduler's also while a timestep runs
                self.log.append(('model.timestep != systems.timestep inside a step', self.model.timestep, t))
            self.log.append((t, self.id))
            fault = FAULT_PLAN.pop((id(self.log), self.id, t), None)         # a one-shot failure scheduled by the driver
            if fault is not None:
                from vlib import faults
                raise faults.make(fault, f'{self.id} fails at {t}')

    import ECAgent.Collectors as collectors

    class WinCollector(collectors.Collector):
        """Collectors are systems too: same window semantics (collect() is what execute() calls)."""

        def __init__(self, id, model, log, **kw):
            super().__init__(id, model, **kw)
            self.log = log

        def collect(self):
            WinSystem.execute(self)

    WinSystem.Collector = WinCollector
    # falsy-but-valid user systems: container-like (len = pending jobs = 0) and switch-like (bool False)
    WinSystem.variants = [WinSystem, type('WinSystemSized', (WinSystem,), {'__len__': lambda self: 0}),
                          type('WinSystemOff', (WinSystem,), {'__bool__': lambda self: False})]
    WinCollector.variants = [WinCollector, type('WinCollectorSized', (WinCollector,), {'__len__': lambda self: len(self.records)})]
    return core, WinSystem


FAULT_PLAN = {}


def should_run(w, t):
    return w['start'] <= t <= w['end'] and (t - w['start']) % w['freq'] == 0


def expected_log(registered, t):
    return Counter((t, w['id']) for w in registered if should_run(w, t))


def check_clocks(model, exp_t, what):
    check(model.systems.timestep == exp_t, f'{what}: scheduler timestep {model.systems.timestep} != expected {exp_t}')
    check(model.timestep == model.systems.timestep, f'{what}: model.timestep != model.systems.timestep')


def probe_invalid_n(ctx, rng, model, log, exp_t):
    import numpy as np
    before = (list(log), model.systems.timestep)
    kind = rng.choice(['value', 'type', 'soft'])
    if kind == 'value':
        n = rng.choice([0, -1, -7, -10 ** 9])
        expect_raises(ValueError, f'execute({n!r})', model.execute, n, exact=True)
        ctx.count('rejected_n_value')
    elif kind == 'type':
        n = rng.choice([1.0, 2.5, '2', None, [1], (2,), 3 + 0j, float('nan')])
        expect_raises(TypeError, f'execute({n!r})', model.execute, n, exact=True)
        ctx.count('rejected_n_type')
    else:
        return  # bool / numpy ints: handled in the script as "either" (see soft_n)
    check((list(log), model.systems.timestep) == before, f'rejected execute({n!r}) changed the log or the clock')
    check_clocks(model, exp_t, 'after rejected n')
    ctx.ev()


def case_script(ctx, case):
    rng = ctx.rng('script', case['i'])
    core, WinSystem = _fixtures()
    from vlib import reps
    quiet = rng.random() < 0.3          # a user-supplied logger on which INFO is off
    model, twin = (core.Model(logger=reps.quiet_logger()), core.Model(logger=reps.quiet_logger())) if quiet else (core.Model(), core.Model())
    log, tlog = [], []
    k = rng.randint(1, 8)
    wins = []
    wid_pool = reps.odd_ids(rng, 'w', k, 0.3, ctx)
    for j in range(k):
        start = rng.randint(-6, 12) if rng.random() < 0.93 else -(2 ** 53) - rng.randint(0, 9)        # (a window that opened 2^53 timesteps ago)
        freq = rng.randint(1, 7)
        endk = rng.random()
        end = sys.maxsize if endk < 0.3 else start + rng.randint(-3, 15)
        wins.append({'id': reps.as_str(rng, wid_pool[j], allow_enum=False), 'start': start, 'end': end, 'freq': freq, 'default_end': endk < 0.3,
                     'prio': rng.randint(-2, 2)})
    objs, tobjs = {}, {}
    for w in wins:
        # window numbers may arrive as numpy integers (read from a parameter array)
        kw = dict(priority=reps.as_int(rng, w['prio']), frequency=reps.as_int(rng, w['freq']), start=reps.as_int(rng, w['start']))
        if not w['default_end']:
            kw['end'] = reps.as_int(rng, w['end'])
        cls = WinSystem.Collector if rng.random() < 0.3 else WinSystem
        if cls is not WinSystem:
            ctx.count('collector_windows')
        cls = reps.pick_variant(rng, cls.variants)
        if cls not in (WinSystem, WinSystem.Collector):
            ctx.count('falsy_system_objects')
        objs[w['id']] = cls(w['id'], model, log, **kw)
        tobjs[w['id']] = cls(w['id'], twin, tlog, **kw)
    registered = []
    t = 0
    total = rng.randint(40, 80)
    chunks = []
    flags = set()
    for w in wins:
        if w['start'] < 0:
            ctx.count('windows_negative_start'); flags.add('neg')
        if w['end'] < w['start']:
            ctx.count('windows_end_before_start'); flags.add('inv')
    while t < total:
        # events at the chunk boundary
        for w in wins:
            isreg = w in registered
            if not isreg and rng.random() < (0.5 if t == 0 else 0.12):
                model.systems.add_system(objs[w['id']])
                twin.systems.add_system(tobjs[w['id']])
                registered.append(w)
                if t > w['start']:
                    ctx.count('late_registrations'); flags.add('late')
            elif isreg and rng.random() < 0.04:
                model.systems.remove_system(w['id'])
                twin.systems.remove_system(w['id'])
                registered.remove(w)
                ctx.count('removals')
        if rng.random() < 0.15:
            probe_invalid_n(ctx, rng, model, log, t)
        due_now = [w for w in registered if any(should_run(w, t + dt) for dt in range(3))]
        if due_now and rng.random() < 0.08:
            # an advance request cut short by a system that raises (ordinary exception or KeyboardInterrupt-like); the caller catches it and
            # goes on with the same model.  The failed request is judged loosely (nothing off its window, nothing twice); every timestep
            # AFTER it is judged as strictly as ever.
            from vlib import faults
            w = rng.choice(due_now)
            tf = next(t + dt for dt in range(3) if should_run(w, t + dt))
            cls = faults.pick(rng)
            n = rng.randint(tf - t + 1, tf - t + 3)
            FAULT_PLAN[(id(log), w['id'], tf)] = cls
            FAULT_PLAN[(id(tlog), w['id'], tf)] = cls
            mark, tmark0 = len(log), len(tlog)
            _, err = faults.attempt(model.execute, n) if n > 1 else faults.attempt(model.execute)
            for _ in range(n):
                _, terr = faults.attempt(twin.execute)
                if terr is not None:
                    break
            FAULT_PLAN.clear()
            ctx.count('advance_requests_cut_short_by_a_failing_system')
            ctx.count('failing_system_interrupt' if cls is faults.Interrupt else 'failing_system_exception')
            got = Counter(log[mark:])
            ok = all(c == 1 for c in got.values()) and all(isinstance(e[0], int) and any(wx['id'] == e[1] and should_run(wx, e[0]) for wx in registered) for e in got)
            if not ok:
                raise CaseViolation(f'execute({n}) at t={t}, cut short at t={tf} by a failing system: a system ran twice or off its window',
                                    observed=log[mark:], windows=[w_ for w_ in registered])
            check(log[mark:] == tlog[tmark0:] and model.systems.timestep == twin.systems.timestep,
                  f'execute({n}) cut short by a failing system is not equivalent to single steps cut short the same way',
                  multi=log[mark:], singles=tlog[tmark0:], clocks=(model.systems.timestep, twin.systems.timestep))
            check_clocks(model, model.systems.timestep, 'after a failed advance request')
            t = model.systems.timestep
            continue
        # advance
        x = rng.random()
        n = 1
        mark = len(log)
        if x < 0.3:
            model.execute()
            how = 'execute()'
        elif x < 0.45:
            model.systems.execute_systems()
            how = 'execute_systems()'
        elif x < 0.5:
            model.execute(1)
            how = 'execute(1)'
        elif x < 0.55:
            # soft n: bool / numpy integer - either rejected with TypeError (nothing changes) or n steps
            import numpy as np
            nn = rng.choice([True, np.int64(2), np.int32(3)])
            try:
                model.execute(nn)
                n = int(nn)
                ctx.count('soft_n_accepted')
            except TypeError:
                n = 0
                ctx.count('soft_n_rejected')
            how = f'execute({nn!r})'
        else:
            n = rng.randint(2, 6)
            model.execute(n)
            ctx.count('multi_step_calls'); flags.add('multi')
            how = f'execute({n})'
        chunks.append(n)
        exp = Counter()
        tmark0 = len(tlog)
        for dt in range(n):
            exp += expected_log(registered, t + dt)
            tm = len(tlog)
            twin.execute()                       # the twin always advances by single steps
            check(Counter(tlog[tm:]) == expected_log(registered, t + dt),
                  f'single step at t={t + dt}: executions differ from the window predicate',
                  expected=sorted(expected_log(registered, t + dt)), observed=tlog[tm:],
                  windows=[w for w in registered])
        got = Counter(log[mark:])
        nran = sum(exp.values())
        ctx.count('decisions_ran', nran)
        ctx.count('decisions_not_ran', n * len(registered) - nran)
        ctx.ev(n * max(1, len(registered)))
        if got != exp:
            raise CaseViolation(f'{how} at t={t}: executions differ from the window predicate',
                                missing=sorted((exp - got).elements()), extra=sorted((got - exp).elements()),
                                windows=[w for w in registered])
        check(log[mark:] == tlog[tmark0:],
              f'{how} at t={t} is not equivalent to {n} single steps', multi=log[mark:], singles=tlog[tmark0:])
        t += n
        check_clocks(model, t, f'after {how}')
        check_clocks(twin, t, 'twin')
    if flags & {'neg', 'inv', 'late'} and 'multi' in flags:
        ctx.distinct(('script', tuple((w['start'], w['end'] if not w['default_end'] else 'inf', w['freq']) for w in wins),
                      tuple(chunks)))
    if case['i'] < 2:
        ctx.sample({'kind': 'script', 'i': case['i'], 'windows': [(w['id'], w['start'], 'forever' if w['default_end'] else w['end'],
                                                                   w['freq']) for w in wins],
                    'chunks': chunks[:30], 'final_t': t, 'log_len': len(log)})


def case_spawn(ctx, case):
    """Systems registered / removed by another system in the middle of multi-step calls: execute(n) must still be n single
    steps.  The spawner has the highest priority, so a system it removes at t has not had its turn at t (must not run at t);
    a system it adds at t may run 0 or 1 times at t (left open by C05) and follows its window from t+1 on."""
    rng = ctx.rng('spawn', case['i'])
    core, WinSystem = _fixtures()

    class Spawner(core.System):
        def __init__(self, model, script, objs, frequency=1):
            super().__init__('spawner', model, priority=100, frequency=frequency)
            self.script, self.objs = script, objs

        def execute(self):
            for kind, wid in self.script.get(self.model.systems.timestep, ()):
                if kind == 'add':
                    self.model.systems.add_system(self.objs[wid])
                else:
                    self.model.systems.remove_system(wid)

    model, twin = core.Model(), core.Model()
    log, tlog = [], []
    wins = {}
    for j in range(rng.randint(2, 6)):
        start = rng.randint(-4, 8)
        wins[f'w{j}'] = {'id': f'w{j}', 'start': start, 'end': sys.maxsize if rng.random() < 0.5 else start + rng.randint(0, 25),
                         'freq': rng.randint(1, 4), 'prio': rng.randint(-2, 2)}
    total = rng.randint(25, 50)
    script, state = {}, {wid: False for wid in wins}
    sfreq = rng.choice([1, 1, 2, 3])          # the registering system itself may be one that only runs every second / third timestep
    if sfreq > 1:
        ctx.count('spawners_that_are_not_due_every_timestep')
    for t in range(0, total, sfreq):
        for wid in wins:
            if rng.random() < 0.08 * sfreq:
                if not state[wid] and rng.random() < 0.15:
                    # registered, removed and registered again within the one call (a system put in place, taken back, put in place after all)
                    script.setdefault(t, []).extend([('add', wid), ('remove', wid), ('add', wid)])
                    ctx.count('systems_registered_removed_and_registered_again_in_one_timestep')
                    state[wid] = True
                    continue
                script.setdefault(t, []).append(('remove' if state[wid] else 'add', wid))
                state[wid] = not state[wid]
    objs = {wid: WinSystem(wid, model, log, priority=w['prio'], frequency=w['freq'], start=w['start'], end=w['end']) for wid, w in wins.items()}
    tobjs = {wid: WinSystem(wid, twin, tlog, priority=w['prio'], frequency=w['freq'], start=w['start'], end=w['end']) for wid, w in wins.items()}
    model.systems.add_system(Spawner(model, script, objs, sfreq))
    twin.systems.add_system(Spawner(twin, script, tobjs, sfreq))
    t, chunks = 0, []
    while t < total:
        n = rng.choice([1, 2, 3, 4, 5, 6, 8])
        n = min(n, total - t)
        if n == 1:
            model.execute()
        else:
            model.execute(n)
            ctx.count('multi_step_calls')
        for _ in range(n):
            twin.execute()
        chunks.append(n)
        t += n
        check_clocks(model, t, f'after execute({n}) with a spawner')
        check_clocks(twin, t, 'twin with a spawner')
    registered = set()
    for tt in range(total):
        ev = script.get(tt, ())
        removed = {wid for k, wid in ev if k == 'remove'}
        added = {wid for k, wid in ev if k == 'add'}
        mandatory = Counter((tt, wid) for wid in registered - removed if should_run(wins[wid], tt))
        for name, lg in (('execute(n) run', log), ('single-step twin', tlog)):
            got = Counter(e for e in lg if e[0] == tt)
            opt = Counter({e: c for e, c in got.items() if e[1] in added})
            ctx.ev()
            if any(c > 1 for c in opt.values()) or any(not should_run(wins[e[1]], tt) for e in opt):
                raise CaseViolation(f'{name}: a system registered mid-step at t={tt} ran more than once or outside its window',
                                    observed=sorted(got.elements()), script=script.get(tt))
            if got - opt != mandatory:
                raise CaseViolation(f'{name}: executions at t={tt} differ from the window predicate (systems registered/removed by a system '
                                    f'during a multi-step advance)', missing=sorted((mandatory - (got - opt)).elements()),
                                    extra=sorted(((got - opt) - mandatory).elements()), chunks=chunks, events={k: v for k, v in script.items() if k <= tt},
                                    windows=list(wins.values()))
        ctx.count('decisions_ran', sum(mandatory.values()))
        ctx.count('decisions_not_ran', len(registered - removed) - sum(mandatory.values()))
        if ev:
            ctx.count('mid_step_registry_changes', len(ev))
        registered = (registered - removed) | added
    check(log == tlog, 'execute(n) with systems registered/removed mid-call is not equivalent to n single steps',
          multi=log[:60], singles=tlog[:60], chunks=chunks)
    ctx.count('spawn_cases')
    ctx.distinct(('spawn', tuple(sorted((k, tuple(v)) for k, v in script.items())), tuple(chunks)))
    if case['i'] < 1:
        ctx.sample({'kind': 'spawner script', 'windows': list(wins.values()), 'events': {str(k): v for k, v in script.items()}, 'chunks': chunks})


def case_retire(ctx, case):
    """Systems that retire THEMSELVES (clean_up() from inside their own execute()) and whose identifier is taken over afterwards by a new
    system object with another window: the newcomer follows its own window from its registration on, whatever its predecessor did."""
    rng = ctx.rng('retire', case['i'])
    core, WinSystem = _fixtures()

    class Retiring(WinSystem):
        def __init__(self, id, model, log, gen, retire_at, **kw):
            super().__init__(id, model, log, **kw)
            self.gen, self.retire_at = gen, retire_at

        def execute(self):
            t = self.model.systems.timestep
            self.log.append((t, f'{self.id}#g{self.gen}'))
            if t == self.retire_at:
                self.clean_up()

    model, twin = core.Model(), core.Model()
    log, tlog = [], []
    total = rng.randint(30, 60)
    plan = []          # dicts: id, gen, start, end, freq, reg (registered before timestep reg), last (last timestep it may run), how
    for j in range(rng.randint(1, 4)):
        t_reg = rng.randint(0, 5)
        for gen in range(rng.randint(2, 4)):
            if t_reg >= total - 2:
                break
            start = t_reg + rng.randint(-6, 4)
            freq = rng.randint(1, 5)
            end = sys.maxsize if rng.random() < 0.6 else t_reg + rng.randint(3, 30)
            first_due = next((t for t in range(t_reg, total) if start <= t <= end and (t - start) % freq == 0), None)
            if first_due is not None and rng.random() < 0.8:
                due = [t for t in range(first_due, total) if t <= end and (t - start) % freq == 0]
                last = rng.choice(due[:4])
                how = 'self'
            else:
                last = min(total - 1, t_reg + rng.randint(0, 6))
                how = 'outside'           # removed by the driver after timestep `last`
            plan.append({'id': f'r{j}', 'gen': gen, 'start': start, 'end': end, 'freq': freq, 'reg': t_reg, 'last': last, 'how': how,
                         'prio': rng.randint(-2, 2)})
            t_reg = last + 1 + rng.choice([0, 0, 1, 2, 5])
    regs = sorted({e['reg'] for e in plan} | {e['last'] + 1 for e in plan if e['how'] == 'outside'})
    t, chunks = 0, []
    while t < total:
        for e in plan:
            if e['how'] == 'outside' and e['last'] + 1 == t:
                model.systems.remove_system(e['id'])
                twin.systems.remove_system(e['id'])
        for e in plan:
            if e['reg'] == t:
                kw = dict(priority=e['prio'], frequency=e['freq'], start=e['start'])
                if e['end'] != sys.maxsize:
                    kw['end'] = e['end']
                ra = e['last'] if e['how'] == 'self' else None
                model.systems.add_system(Retiring(e['id'], model, log, e['gen'], ra, **kw))
                twin.systems.add_system(Retiring(e['id'], twin, tlog, e['gen'], ra, **kw))
                ctx.count('late_registrations')
                if e['gen']:
                    ctx.count('ids_taken_over_after_self_retirement' if plan[plan.index(e) - 1]['how'] == 'self' else 'ids_taken_over_after_removal')
        nxt = min([r for r in regs if r > t] + [total])
        n = min(rng.choice([1, 2, 3, 5, 8]), nxt - t)
        if n == 1:
            model.execute()
        else:
            model.execute(n)
            ctx.count('multi_step_calls')
        for _ in range(n):
            twin.execute()
        chunks.append(n)
        t += n
        check_clocks(model, t, 'after a chunk with self-retiring systems')
    for tt in range(total):
        exp = Counter((tt, f"{e['id']}#g{e['gen']}") for e in plan
                      if e['reg'] <= tt <= e['last'] and e['start'] <= tt <= e['end'] and (tt - e['start']) % e['freq'] == 0)
        for name, lg in (('execute(n) run', log), ('single-step twin', tlog)):
            got = Counter(x for x in lg if x[0] == tt)
            ctx.ev()
            if got != exp:
                raise CaseViolation(f'{name}: executions at t={tt} differ from the window predicate (systems that retired themselves, identifiers '
                                    f'taken over by new systems with other windows)', missing=sorted((exp - got).elements()),
                                    extra=sorted((got - exp).elements()), plan=plan, chunks=chunks)
        ctx.count('decisions_ran', sum(exp.values()))
    ctx.count('retire_cases')
    ctx.distinct(('retire', tuple((e['id'], e['gen'], e['start'], e['freq'], e['reg'], e['last'], e['how']) for e in plan), tuple(chunks)))
    if case['i'] < 1:
        ctx.sample({'kind': 'self-retiring systems', 'plan': plan[:6], 'chunks': chunks[:12]})


def case_long(ctx, case):
    """Scale regime: long runs (1000-2000 timesteps), large frequencies, ends on and around powers of two, very long execute(n) calls,
    long stretches without any registry change - compared step by step with the window predicate and with a single-stepped twin."""
    rng = ctx.rng('long', case['i'])
    core, WinSystem = _fixtures()
    model, twin = core.Model(), core.Model()
    log, tlog = [], []
    wins = []
    for j in range(rng.randint(1, 5)):
        start = rng.choice([0, 0, rng.randint(-50, 300)])
        freq = rng.choice([1, 1, 2, 3, rng.randint(4, 40), rng.randint(41, 200)])
        end = rng.choice([sys.maxsize, 255, 256, 257, 511, 512, 513, 767, 768, 1023, 1024, 1025, start + freq * rng.randint(1, 40),
                          rng.randint(0, 1500)])
        if end != sys.maxsize and end >= start and rng.random() < 0.7:
            end = start + ((end - start) // freq) * freq if rng.random() < 0.5 else end      # often: the system is due exactly at its end
        wins.append({'id': f'L{j}', 'start': start, 'end': end, 'freq': freq})
    t_reg = rng.choice([0, 0, 0, rng.randint(1, 300)])      # all systems registered at once, then a long quiet stretch
    for w in wins:
        kw = dict(frequency=w['freq'], start=w['start'])
        if w['end'] != sys.maxsize:
            kw['end'] = w['end']
        w['objs'] = (WinSystem(w['id'], model, log, **kw), WinSystem(w['id'], twin, tlog, **kw))
    total = rng.randint(900, 1600)
    t = 0
    if t_reg:
        model.execute(t_reg)
        for _ in range(t_reg):
            twin.execute()
        t = t_reg
    for w in wins:
        model.systems.add_system(w['objs'][0])
        twin.systems.add_system(w['objs'][1])
    chunks = []
    while t < total:
        n = rng.choice([1, 1, 2, 7, 64, 65, 66, 100, 129, 300, 700, total])
        n = max(1, min(n, total - t))
        if n == 1 and rng.random() < 0.5:
            model.systems.execute_systems()
        else:
            model.execute(n)
        for _ in range(n):
            twin.execute()
        chunks.append(n)
        t += n
        check_clocks(model, t, f'after execute({n}) in a long run')
    for name, lg in (('multi-step run', log), ('single-stepped twin', tlog)):
        got = Counter(e for e in lg)
        exp = Counter()
        for w in wins:
            first = max(w['start'], t_reg)
            k0 = -(-(first - w['start']) // w['freq'])
            tt = w['start'] + k0 * w['freq']
            while tt <= min(w['end'], total - 1):
                exp[(tt, w['id'])] += 1
                tt += w['freq']
        ctx.ev(len(exp) + 1)
        if got != exp:
            miss, extra = sorted((exp - got).elements()), sorted((got - exp).elements())
            raise CaseViolation(f'{name} over {total} timesteps: executions differ from the window predicate',
                                missing=miss[:10], extra=extra[:10], windows=[{k: v for k, v in w.items() if k != 'objs'} for w in wins],
                                registered_at=t_reg, chunks=chunks[:40])
    check(log == tlog, 'long execute(n) calls are not equivalent to single steps', chunks=chunks[:40])
    ctx.count('long_runs')
    ctx.count('long_run_timesteps', total)
    ctx.count('decisions_ran', len(log))
    ctx.distinct(('long', tuple((w['start'], w['end'], w['freq']) for w in wins), t_reg, tuple(chunks[:20])))
    if case['i'] < 1:
        ctx.sample({'kind': 'long run', 'timesteps': total, 'windows': [{k: v for k, v in w.items() if k != 'objs'} for w in wins], 'chunks': chunks[:12]})


def case_warp(ctx, case):
    """Cross the default end (sys.maxsize): t = maxsize runs, maxsize+1 does not."""
    rng = ctx.rng('warp', case['i'])
    core, WinSystem = _fixtures()
    model = core.Model()
    log = []
    freq = rng.randint(1, 3)
    back = rng.randint(1, 6)
    start = sys.maxsize - back - freq * rng.randint(0, 5)
    w = {'id': 'd', 'start': start, 'end': sys.maxsize, 'freq': freq}
    model.systems.add_system(WinSystem('d', model, log, frequency=freq, start=start))
    w2 = {'id': 'e', 'start': 0, 'end': sys.maxsize, 'freq': 1}
    model.systems.add_system(WinSystem('e', model, log))
    model.systems.timestep = sys.maxsize - back
    t = sys.maxsize - back
    for _ in range(back + 4):
        mark = len(log)
        model.execute()
        exp = expected_log([w, w2], t)
        ctx.ev(2)
        check(Counter(log[mark:]) == exp, f'clock-warp step at t=maxsize{t - sys.maxsize:+d}: executions differ',
              expected=sorted(exp), observed=log[mark:], window=w)
        t += 1
        check_clocks(model, t, 'warp')
    ctx.count('warp_cases')
    ctx.distinct(('warp', back, freq, sys.maxsize - start))


def case_box(ctx, case):
    core, WinSystem = _fixtures()
    start, end, freq, T = case['start'], case['end'], case['freq'], case['T']
    model = core.Model()
    log = []
    kw = dict(frequency=freq, start=start)
    if end is not None:
        kw['end'] = start + end
    w = {'id': 'b', 'start': start, 'end': sys.maxsize if end is None else start + end, 'freq': freq}
    model.systems.add_system(WinSystem('b', model, log, **kw))
    for t in range(T):
        mark = len(log)
        model.execute()
        exp = [(t, 'b')] if should_run(w, t) else []
        ctx.ev()
        ctx.count('decisions_ran' if exp else 'decisions_not_ran')
        check(log[mark:] == exp, f'box window start={start} end={w["end"]} freq={freq}: t={t} expected {exp}, got {log[mark:]}')
    check_clocks(model, T, 'box')
    ctx.count('box_windows')
    if len(log) not in (0, T):
        ctx.distinct(('box', start, end, freq))


def run_case(ctx, case):
    {'script': case_script, 'warp': case_warp, 'box': case_box, 'spawn': case_spawn, 'long': case_long, 'retire': case_retire}[case['kind']](ctx, case)


def run(ctx):
    b = BOX[ctx.tier]
    idx = 0
    for s in b['starts']:
        for e in list(b['ends']) + [None]:
            for f in b['freqs']:
                if ctx.mine(idx) and not ctx.full():
                    ctx.run_case({'kind': 'box', 'start': s, 'end': e, 'freq': f, 'T': b['T']}, run_case)
                idx += 1
    for i in range(N_SCRIPTS[ctx.tier] // 20):
        if ctx.mine(i) and not ctx.full():
            ctx.run_case({'kind': 'warp', 'i': i}, run_case)
    for i in range(N_SCRIPTS[ctx.tier]):
        if ctx.mine(i) and not ctx.full():
            ctx.run_case({'kind': 'script', 'i': i}, run_case)
    for i in range(N_SCRIPTS[ctx.tier] // 3):
        if ctx.mine(i) and not ctx.full():
            ctx.run_case({'kind': 'spawn', 'i': i}, run_case)
    for i in range(N_LONG[ctx.tier]):
        if ctx.mine(i) and not ctx.full():
            ctx.run_case({'kind': 'long', 'i': i}, run_case)
    for i in range(N_SCRIPTS[ctx.tier] // 3):
        if ctx.mine(i) and not ctx.full():
            ctx.run_case({'kind': 'retire', 'i': i}, run_case)
    ctx.sample({'kind': 'box', 'starts': [b['starts'][0], b['starts'][-1]], 'ends_rel_start': [b['ends'][0], b['ends'][-1], 'forever'],
                'freqs': [b['freqs'][0], b['freqs'][-1]], 'T': b['T']})


def replay(ctx, case):
    ctx.run_case(case, run_case)
