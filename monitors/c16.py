"""C16 - grid search scores every combination correctly and returns the true best.

A picklable score function reads a harness table score[params][repetition]; the outcome (parameters, records, aggregate per
mode, best) is recomputed with exact Fractions; serial and k-process outcomes must be identical.
"""
import math
import sys
from fractions import Fraction

from vlib.engine import CaseViolation
from vlib.util import check

PROP = 'C16'
LEVEL = 'exploration'
SHARDS = {'quick': 8, 'thorough': 16}
TIMEOUT = {'quick': 400, 'thorough': 3400}
N_SEARCH = {'quick': 360, 'thorough': 16000}
N_BIG = {'quick': 12, 'thorough': 300}          # scale regime: 65-200 repetitions, 100-300 combinations
RULE = ('cases: seeded grid searches over grids of 1-12 combinations (1-3 parameters, dict or ParameterList), all 8 scoring modes, repetitions '
        '1-5 (>=2 for variance modes), score tables with negative, tied, non-monotone, exact dyadic values and magnitudes 1e19-1e30 (beyond '
        'sys.maxsize, both signs), the optimum placed first / middle / last, several tied optima; step limits below/above the model\'s own '
        'completion; each search is run with 1 process and with k in {2,4,8,16} processes. Oracle: results in product order, each = the '
        'combination\'s unmodified parameters + records (the table row) + score (exact Fraction aggregate: min, max, mean, sum, sample '
        'variance; == on dyadic tables and for min/max/mean/variance, 1e-9 relative for sums of wild floats); best is (identically) the '
        'first result attaining the min / max of the reported scores; serial and parallel outcomes equal. Non-trivial search: >=3 '
        'combinations with a tie for the optimum or an optimum that is not first, or scores beyond sys.maxsize; distinct by (grid, mode, '
        'table).')
ASSUMPTIONS = ['grids carry no repeated values (the table key must identify the combination; duplicates are C14\'s subject)',
               'workers are forked (Linux default), so the score table set before the call is visible to them']
FLOORS = {'quick': {'all_tied_tables_beyond_maxsize': 1, 'tables_on_which_every_combination_ties': 12, 'searches_whose_score_function_runs_a_failing_search': 48, 'searches_after_a_build_that_failed_in_a_collection': 26, 'grids_with_non_list_collections': 67, 'searches': 300, 'parallel_searches': 150, 'results_checked': 1500, 'mode_0': 15, 'mode_1': 15, 'mode_2': 15, 'mode_3': 15,
                    'mode_4': 15, 'mode_5': 15, 'mode_6': 15, 'mode_7': 15, 'tied_optimum': 40, 'optimum_last': 30, 'optimum_first': 30,
                    'optimum_middle': 20, 'beyond_maxsize_tables': 40, 'seeded_grids': 38, 'big_equal_valued_neighbours': 2, 'big_long_variance': 2, 'big_grids': 2, 'parameter_list_reused': 79, 'style_bigint': 14, 'style_nearmax': 8, 'limit_below_completion': 30,
                    'reach:Batching.grid_search': 300},
          'thorough': {'searches': 12000, 'parallel_searches': 6000}}
EXHAUSTIVE = {}


def exact_aggregate(rows, mode):
    fr = [Fraction(x) for x in rows]
    if mode == 0:
        return min(fr)
    if mode == 1:
        return max(fr)
    if mode in (2, 3):
        return sum(fr) / len(fr)
    if mode in (4, 5):
        return sum(fr)
    m = sum(fr) / len(fr)
    return sum((x - m) ** 2 for x in fr) / (len(fr) - 1)


def gen_table(rng, n, reps, style, mode):
    def val():
        if style == 'dyadic':
            return rng.randint(-80, 80) / 8
        if style == 'int':
            return rng.randint(-5, 5)
        if style == 'huge':
            return rng.choice([1, 1, -1]) * rng.uniform(1e19, 1e30)
        if style == 'hugeneg':
            return -rng.uniform(1e19, 1e30)
        if style == 'hugepos':
            return rng.uniform(1e19, 1e30)
        if style == 'bigint':
            return 2 ** 60 + rng.randint(-9, 9)          # integer scores a double cannot represent
        if style == 'nearmax':
            return rng.choice([1, -1]) * rng.uniform(1.0e308, 1.7e308)
        return rng.uniform(-100, 100)
    rows = [[val() for _ in range(reps)] for _ in range(n)]
    # place the optimum / ties
    is_min = mode % 2 == 0
    agg = [exact_aggregate(r, mode) for r in rows]
    best = min(agg) if is_min else max(agg)
    src = agg.index(best)
    where = rng.choice(['first', 'middle', 'last', 'keep'])
    tgt = {'first': 0, 'middle': n // 2, 'last': n - 1, 'keep': src}[where]
    rows[src], rows[tgt] = rows[tgt], rows[src]
    if n >= 3 and rng.random() < 0.35:          # a second combination attaining the optimum (same row values)
        other = rng.choice([j for j in range(n) if j != tgt])
        rows[other] = list(rows[tgt])
    if n >= 2 and rng.random() < 0.12:          # every combination attains the optimum (a flat response surface): the first one is the best
        rows = [list(rows[tgt]) for _ in range(n)]
    return rows


def case_search(ctx, case):
    import ECAgent.Batching as batching
    from vlib.fixtures import batchmodels as bm
    rng = ctx.rng('search', case['i'])
    names = rng.sample(['lr', 'size', 'mode_name'], rng.randint(1, 3))
    grid, total = {}, 1
    for nme in names:
        k = rng.choice([1, 2, 2, 3, 4])
        if total * k > 12:
            k = 1
        pool = {'lr': [0.1, 0.2, 0.5, 1.0, 2.0], 'size': [10, 20, 30, 40, 50], 'mode_name': ['a', 'b', 'c', 'd', 'e']}[nme]
        vals = rng.sample(pool, k)
        grid[nme] = vals if k > 1 or rng.random() < 0.5 else vals[0]
        total *= k
    mode = rng.randrange(8)
    reps = rng.randint(2, 5) if mode >= 6 else rng.randint(1, 5)
    stop = rng.choice([0, 0, 1, 3])
    lim = rng.choice([None, None, stop + 2, stop + 1, max(0, stop - 1), stop])
    grid['stop'] = stop
    if rng.random() < 0.35 and total * 2 <= 12:
        grid['seed'] = rng.sample([0, 1, 7, 2 ** 33], 2) if rng.random() < 0.7 else 0      # forwarded to Model(seed=...)
        ctx.count('seeded_grids')
    style = rng.choice(['dyadic', 'dyadic', 'int', 'wild', 'huge', 'hugeneg', 'hugepos', 'bigint'] + (['nearmax'] if mode < 4 else []))
    ctx.count('style_' + style)
    combos = batching.ParameterList(dict(grid)).build() if False else None
    # reference product (first-declared slowest), independent of ParameterList
    ref = [[]]
    for nme, v in grid.items():
        vals = v if isinstance(v, list) else [v]
        ref = [row + [(nme, x)] for row in ref for x in vals]
    ref = [dict(r) for r in ref]
    n = len(ref)
    rows = gen_table(rng, n, reps, style, mode)
    bm.TABLE.clear()
    for combo, row in zip(ref, rows):
        bm.TABLE[bm.pkey(combo)] = list(row)
    if 'seed' in grid:
        import random as _random
        if style not in ('dyadic', 'int'):
            style = 'dyadic'
            rows = gen_table(rng, n, reps, style, mode)
            for combo, row in zip(ref, rows):
                bm.TABLE[bm.pkey(combo)] = list(row)
        # what the score function returns: table value + a draw from the model's generator seeded with the combination's seed
        rows = [[v + int(_random.Random(combo['seed']).random() * 64) / 8 for v in row] for combo, row in zip(ref, rows)]
    bm.EXPECT_T[0] = (lim if lim is not None and lim <= stop else stop + 1)
    if lim is not None and lim <= stop:
        ctx.count('limit_below_completion')
    is_min = mode % 2 == 0
    exact = [exact_aggregate(r, mode) for r in rows]
    if n >= 2 and len(set(exact)) == 1:
        ctx.count('tables_on_which_every_combination_ties')
        if abs(exact[0]) > sys.maxsize:
            ctx.count('all_tied_tables_beyond_maxsize')
    outcomes = []
    procs_list = [1, rng.choice([2, 4, 8, 16])]
    shared_pl = None
    # the values of a parameter may be handed over as any re-iterable collection (tuple, range, dict view, an iterable without len())
    from vlib import reps as _reps
    given = {k_: _reps.as_collection(rng, v_, 0.4) for k_, v_ in grid.items()}
    if rng.random() < 0.25:
        # earlier in this process a parameter list with a collection of the caller's own type was built, and that collection failed
        # with a TypeError while it was iterated (the caller caught / ignored it); now a healthy collection of the same type is used
        from vlib import faults
        faults.attempt(batching.ParameterList({'warm_up': _reps.MoodyBag([1, 2, 3], TypeError, after=rng.randint(0, 3))}).build)
        k_list = [k_ for k_, v_ in grid.items() if isinstance(v_, list)]
        if k_list:
            k_ = rng.choice(k_list)
            given[k_] = _reps.MoodyBag(grid[k_], TypeError)
            given[k_].armed = False
        ctx.count('searches_after_a_build_that_failed_in_a_collection')
    if any(type(given[k_]) is not type(grid[k_]) for k_ in grid):
        ctx.count('grids_with_non_list_collections')
    if rng.random() < 0.5:
        shared_pl = batching.ParameterList()          # ONE ParameterList object used for both searches
        for k_, v_ in given.items():
            shared_pl.add_parameter(k_, v_)
        ctx.count('parameter_list_reused')
    if rng.random() < 0.5:
        procs_list = procs_list[::-1]
    for procs in procs_list:
        bm.COUNTS.clear()
        params = shared_pl if shared_pl is not None else dict(given)
        kw = dict(processes=procs, repetitions=reps, mode=batching.ScoreMode(mode))
        if lim is not None:
            kw['max_timesteps'] = lim
        score_fn = bm.table_score
        if case['i'] % 5 == 3:
            score_fn = bm.table_score_nested          # the score function runs (and survives) a failing search of its own
            ctx.count('searches_whose_score_function_runs_a_failing_search')
        best, results = batching.grid_search(bm.SModel, params, score_fn, **kw)
        ctx.count('searches')
        ctx.count(f'mode_{mode}')
        if procs > 1:
            ctx.count('parallel_searches')
        ctx.ev()
        detail = dict(grid=grid, mode=batching.ScoreMode(mode).name, repetitions=reps, processes=procs, table=rows, max_timesteps=lim)
        check(isinstance(results, list) and len(results) == n, f'grid_search returned {len(results)} results for {n} combinations', **detail)
        for j, (res, combo, row, ex) in enumerate(zip(results, ref, rows, exact)):
            ctx.count('results_checked')
            plain = {k_: v_ for k_, v_ in res.items() if k_ not in ('records', 'score')}
            if plain != combo:
                raise CaseViolation(f'result #{j} carries parameters {plain}, expected {combo} (product order / unmodified parameters)', **detail)
            if list(res['records']) != list(row):
                raise CaseViolation(f'result #{j}: individual scores {res["records"]} differ from the score function\'s values {row}', **detail)
            sc = res['score']
            if isinstance(sc, float) and (sc != sc or sc in (float('inf'), float('-inf'))):
                # a non-finite aggregate is right only where the exact one lies beyond the range of a double as well
                try:
                    float(ex)
                except OverflowError:
                    ctx.count('aggregates_beyond_the_range_of_a_double')
                    continue
                raise CaseViolation(f'result #{j}: aggregate {sc!r} is not finite although the {batching.ScoreMode(mode).name} aggregate of {row} is '
                                    f'{float(ex)!r}', **detail)
            ok = Fraction(sc) == ex or (sc == float(ex) and not (style in ('int', 'bigint') and ex.denominator == 1))
            # (integer scores with an integral aggregate must be reported exactly, not rounded to a double)
            if not ok and style in ('wild', 'huge', 'hugeneg', 'hugepos') and mode in (4, 5, 6, 7, 2, 3):
                scale = max(abs(float(ex)), max(abs(x) for x in row) ** (2 if mode >= 6 else 1) * 1e-3, 1e-300)
                ok = abs(float(Fraction(sc) - ex)) <= 1e-9 * scale
            if not ok and (style not in ('int', 'bigint') or ex.denominator != 1) and mode in (4, 5, 6, 7, 2, 3):
                # float scores: the mean / sum / sample variance computed in floating point by ANY sound algorithm (two-pass, Welford, exact
                # fractions rounded once) - they differ in the last units, far below 1e-12 of the magnitudes involved
                scale = max(abs(float(ex)), max(abs(float(x)) for x in row) ** (2 if mode >= 6 else 1))
                ok = abs(float(Fraction(sc) - ex)) <= 1e-12 * scale
                if ok:
                    ctx.count('aggregates_equal_up_to_float_rounding')
            if not ok:
                raise CaseViolation(f'result #{j}: aggregate {sc!r} is not the {batching.ScoreMode(mode).name} aggregate {float(ex)!r} of {row}', **detail)
        scores = [r['score'] for r in results]
        target = min(scores) if is_min else max(scores)
        first = scores.index(target)
        if best is not results[first]:
            bi = next((k_ for k_, r in enumerate(results) if r is best), None)
            raise CaseViolation(f'best is result #{bi} (score {best.get("score") if isinstance(best, dict) else best}) but the first {"minimum" if is_min else "maximum"} '
                                f'is result #{first} (score {target})', scores=scores, **detail)
        outcomes.append(([dict(r) for r in results], first))
        if scores.count(target) > 1:
            ctx.count('tied_optimum')
        ctx.count('optimum_first' if first == 0 else ('optimum_last' if first == n - 1 else 'optimum_middle'))
    if outcomes[0] != outcomes[1]:
        raise CaseViolation(f'serial and {max(procs_list)}-process grid search differ', serial=outcomes[0], parallel=outcomes[1], grid=grid,
                            mode=mode)
    beyond = all(abs(float(e)) > sys.maxsize for e in exact)
    if beyond:
        ctx.count('beyond_maxsize_tables')
    sc0 = [r['score'] for r in outcomes[0][0]]
    tgt = min(sc0) if is_min else max(sc0)
    if n >= 3 and (sc0.count(tgt) > 1 or outcomes[0][1] != 0) or beyond:
        ctx.distinct((str(grid), mode, str(rows)))
    bm.EXPECT_T[0] = None
    if case['i'] < 3:
        ctx.sample({'kind': 'search', 'grid': grid, 'mode': batching.ScoreMode(mode).name, 'repetitions': reps, 'table': rows[:4],
                    'scores': sc0[:6], 'best_index': outcomes[0][1], 'processes': procs_list})



def case_big(ctx, case):
    """Scale regime: 65-200 repetitions per combination (variance of scores that are large compared with their spread; equal-valued
    neighbouring combinations such as 1 / 1.0), grids of 100-300 combinations - serial and multi-process, exact recomputation."""
    import ECAgent.Batching as batching
    from vlib.fixtures import batchmodels as bm
    rng = ctx.rng('big', case['i'])
    style = case['i'] % 3
    if style == 0:
        grid = {'lr': rng.sample([0.1, 0.2, 0.5, 2.0], 3), 'size': rng.choice([[1, 1.0], [10, 10.0, 20], [True, 1, 2]])}
        reps, mode = rng.choice([65, 70, 130]), rng.choice([0, 1, 4, 5, 2, 3])
        ctx.count('big_equal_valued_neighbours')
    elif style == 1:
        grid = {'lr': rng.sample([0.1, 0.2, 0.5, 1.0, 2.0], rng.randint(2, 4))}
        reps, mode = rng.choice([129, 150, 200]), rng.choice([6, 7])
        ctx.count('big_long_variance')
    else:
        grid = {'size': list(range(rng.choice([100, 180, 300])))}
        reps, mode = 1, rng.randrange(6)
        ctx.count('big_grids')
    grid['stop'] = 0
    ref = [[]]
    for nme, v in grid.items():
        vals = v if isinstance(v, list) else [v]
        ref = [row + [(nme, x)] for row in ref for x in vals]
    ref = [dict(r) for r in ref]
    base = rng.choice([0, 1e3, 1e6, 1e9, 1e9, 2.0 ** 40]) if style == 1 else 0
    rows = [[base + rng.randint(-40, 40) / 8 for _ in range(reps)] for _ in ref]
    bm.TABLE.clear()
    keys = [bm.pkey(c) for c in ref]
    check(len(set(keys)) == len(keys), 'harness: table keys must identify the combinations', keys=keys[:6])
    for k_, row in zip(keys, rows):
        bm.TABLE[k_] = list(row)
    bm.EXPECT_T[0] = 1
    exact = [exact_aggregate(r, mode) for r in rows]
    is_min = mode % 2 == 0
    outcomes = []
    for procs in (1, rng.choice([2, 3, 5])):
        bm.COUNTS.clear()
        best, results = batching.grid_search(bm.SModel, dict(grid), bm.table_score, processes=procs, repetitions=reps, mode=batching.ScoreMode(mode))
        ctx.count('searches')
        ctx.ev()
        detail = dict(grid={k: (v if not isinstance(v, list) or len(v) < 8 else f'{len(v)} values') for k, v in grid.items()},
                      mode=batching.ScoreMode(mode).name, repetitions=reps, processes=procs)
        if len(results) != len(ref):
            raise CaseViolation(f'grid_search returned {len(results)} results for {len(ref)} combinations', **detail)
        for j, (res, combo, row, ex) in enumerate(zip(results, ref, rows, exact)):
            plain = {k_: v_ for k_, v_ in res.items() if k_ not in ('records', 'score')}
            if plain != combo or any(type(plain[k_]) is not type(combo[k_]) for k_ in combo):
                raise CaseViolation(f'result #{j} carries parameters {plain}, expected {combo}', **detail)
            if list(res['records']) != list(row):
                raise CaseViolation(f'result #{j}: {len(res["records"])} individual scores, expected the {len(row)} values of the score function',
                                    first_scores=list(res['records'])[:5], expected_first=row[:5], **detail)
            sc = res['score']
            tol = 0 if mode < 4 else abs(float(ex)) * 1e-9 + 1e-12
            if abs(Fraction(sc) - ex) > tol and sc != float(ex):
                raise CaseViolation(f'result #{j}: aggregate {sc!r} is not the {batching.ScoreMode(mode).name} aggregate {float(ex)!r} of its {reps} scores',
                                    baseline=base, **detail)
        scores = [r['score'] for r in results]
        first = scores.index(min(scores) if is_min else max(scores))
        check(best is results[first], f'best is not the first result attaining the optimum (result #{first})', **detail)
        outcomes.append(([dict(r) for r in results], first))
    check(outcomes[0] == outcomes[1], 'serial and multi-process grid search differ in the scale regime', grid=str(grid)[:200])
    bm.EXPECT_T[0] = None
    ctx.distinct(('big', style, reps, mode, case['i']))


def run_case(ctx, case):
    (case_big if case.get('kind') == 'big' else case_search)(ctx, case)


def run(ctx):
    for i in range(N_SEARCH[ctx.tier]):
        if ctx.mine(i) and not ctx.full():
            ctx.run_case({'kind': 'search', 'i': i}, run_case)
    for i in range(N_BIG[ctx.tier]):
        if ctx.mine(i) and not ctx.full():
            ctx.run_case({'kind': 'big', 'i': i}, run_case)


def replay(ctx, case):
    ctx.run_case(case, run_case)
