"""C08 - agents stay inside the world; moves are exactly modular or saturating.

After EVERY op the position of EVERY agent is read back and compared with per-axis reference arithmetic (Fractions) on the
positive-extent axes; exact on the dyadic class (multiples of 1/8 below 2^40, where float + and % are exact), containment
exact and landing within 4 ulp on wild floats.
"""
import math

import numpy as np
from fractions import Fraction

from vlib.engine import CaseViolation
from vlib.util import check, expect_raises

PROP = 'C08'
LEVEL = 'exploration'
SHARDS = {'quick': 4, 'thorough': 16}
TIMEOUT = {'quick': 300, 'thorough': 3000}
N_HIST = {'quick': 1500, 'thorough': 120000}
N_BIG = {'quick': 12, 'thorough': 600}          # scale regime: 500-1200 operations in one world, up to 300 agents
RULE = ('cases: seeded histories of 40 ops (add / move / move_to / remove / move of an absent agent / second placement of an id already in the world, by the resident object or a newcomer) for 1-5 agents in SpaceWorld, '
        'DiscreteWorld, LineWorld, GridWorld with deliberately unequal extents from {0} u {1..9} (continuous also 1.0, 2.5, 7.125), '
        'wrap on/off; arguments in range, on the boundary (0, inclusive edge) and far out of range (up to 10^9 x extent - in grid worlds also 10^17, 2^60+1, 10^30 x extent: Python ints are exact -, both signs, '
        'multi-lap wraps, mixed clamp directions); exact class (dyadic) 75%, wild floats 25% in continuous worlds. Oracle per '
        'positive-extent axis: wrap -> (old+d) mod extent, else clamp(old+d, 0, extent[-1 for grids]); accepted placement/move_to '
        'lands where requested; rejected ones change nothing; other agents never move; removal drops the position. Non-trivial: '
        'history with >=1 multi-lap wrap or saturation on each side, >=1 rejected absolute move and >=1 boundary landing; distinct '
        'by (world kind, extents, wrap, op-kind trace).')
ASSUMPTIONS = ['only axes of positive extent are claimed (zero-extent axes are read back but not judged)',
               'extents are 0 or >= 1', 'float landing is exact on multiples of 1/8 below 2^40; elsewhere within 4*(ulp(|old|+|delta|)+ulp(extent)): float % rounds once more when it folds a negative remainder']
FLOORS = {'quick': {'operations_after_which_nobody_looked': 6022, 'histories_continued_after_the_model_completed': 185, 'pattern_like_or_unnormalised_ids': 900, 'cases_in_mode_warnings': 126, 'cases_in_mode_optimised': 126, 'histories_continued_on_a_deep_copy': 571, 'calls_refused_for_a_wrong_typed_coordinate': 424, 'operations_in_the_other_world': 3968, 'calls_with_numpy_scalars': 2849, 'wrap_mode_switched_mid_history': 795, 'placements_rejected_as_duplicate': 789, 'moves_wrap': 3898, 'moves_clamp': 3853, 'multi_lap_wraps': 800, 'saturated_low': 500, 'saturated_high': 500,
                    'move_to_accepted': 2000, 'move_to_rejected': 2000, 'boundary_landings': 1500, 'removals': 1000, 'deprecated_alias_calls': 300, 'big_histories': 6, 'big_history_ops': 3000, 'wild_ops': 500,
                    'exact_ops': 6721, 'contract:SpaceWorld.containment': 30000, 'world_space': 200, 'world_discrete': 200, 'world_line': 80, 'world_grid': 80,
                    'reach:Environments.SpaceWorld.move': 8000, 'reach:Environments.SpaceWorld.move_to': 4000},
          'thorough': {'moves_wrap': 300000, 'moves_clamp': 300000, 'move_to_rejected': 150000}}
EXHAUSTIVE = {}


def _wrap_kw(wrap):
    """wrap_env=False is the documented default: half of the non-wrapping worlds are built without naming it."""
    _wrap_kw.n += 1
    return {} if (wrap is False and _wrap_kw.n % 2) else {'wrap_env': wrap}


_wrap_kw.n = 0


def fixtures():
    import ECAgent.Core as core
    import ECAgent.Environments as envs
    from vlib import contracts
    contracts.attach_spaceworld(envs)       # second monitor: containment invariant at the exit of every public world call
    return core, envs


def make_world(core, envs, rng, model):
    kind = rng.choice(['space', 'space', 'discrete', 'discrete', 'line', 'grid'])
    wrap = rng.random() < 0.5
    if kind == 'space':
        pool = [1, 2, 3, 5, 7, 9, 1.0, 2.5, 7.125, 4.0]
        ext = [rng.choice(pool), rng.choice([0, 0.0] + pool), rng.choice([0, 0.0] + pool)]
        while len({e for e in ext if e}) < sum(1 for e in ext if e) and rng.random() < 0.9:
            ext = [rng.choice(pool), rng.choice([0, 0.0] + pool), rng.choice([0, 0.0] + pool)]
        env = envs.SpaceWorld(model, *ext, **_wrap_kw(wrap))
    elif kind == 'discrete':
        ext = [rng.choice([0, 1, 2, 3, 5, 8]), rng.choice([0, 1, 2, 4, 6, 9]), rng.choice([0, 1, 3, 7])]
        if not any(ext):
            ext[rng.randrange(3)] = rng.randint(1, 9)
        env = envs.DiscreteWorld(model, *ext, **_wrap_kw(wrap))
    elif kind == 'line':
        ext = [rng.randint(1, 9), 0, 0]
        env = envs.LineWorld(model, ext[0], **_wrap_kw(wrap))
    else:
        w = rng.randint(1, 9)
        ext = [w, rng.choice([h for h in range(1, 10) if h != w]), 0]
        env = envs.GridWorld(model, ext[0], ext[1], **_wrap_kw(wrap))
    model.environment = env
    return kind, env, ext, wrap


def case_history(ctx, case):
    rng = ctx.rng('hist', case['i'])
    core, envs = fixtures()
    P = envs.PositionComponent
    model = core.Model()
    kind, env, ext, wrap = make_world(core, envs, rng, model)
    ctx.count('world_' + kind)
    grid = kind != 'space'
    off = 1 if grid else 0
    wild = (not grid) and rng.random() < 0.25
    from vlib import reps as _reps0
    agents = [core.Agent(n_, model) for n_ in _reps0.odd_ids(rng, 'a', rng.randint(1, 5), 0.3, ctx)]
    Mark = type('Mark', (core.Component,), {'__slots__': ()})
    for a_ in agents:
        if rng.random() < 0.5:
            a_.add_component(Mark(a_, model))         # agents usually carry components of their own
    ref = {}           # agent id -> [Fraction|None per axis] for residents (None on unclaimed axes)
    # a second world of another model is alive all the time and is populated with agents of the SAME ids, elsewhere: the two worlds have
    # nothing to do with each other
    shadow_model = core.Model()
    s_kind, s_env, s_ext, s_wrap = make_world(core, envs, rng, shadow_model)
    s_agents = {a.id: core.Agent(a.id, shadow_model) for a in agents}
    s_ref = {}

    def shadow_op():
        a = s_agents[rng.choice(list(s_agents))]
        pos = [0 if not e else (rng.randint(0, int(e) - 1) if s_kind != 'space' else rng.randint(0, int(e * 8)) / 8) for e in s_ext]
        if a.id in s_ref and rng.random() < 0.15:
            s_env.remove_agent(a.id)
            del s_ref[a.id]
        elif a.id in s_ref:
            s_env.move_to(a, *pos)
            s_ref[a.id] = tuple(pos)
        else:
            s_env.add_agent(a, *pos)
            s_ref[a.id] = tuple(pos)
        ctx.count('operations_in_the_other_world')

    def verify_shadow(what):
        for aid, a in s_agents.items():
            got = a[P].xyz() if P in a.components else None
            exp = s_ref.get(aid)
            if (got is None) != (exp is None) or (got is not None and any(Fraction(float(g)) != Fraction(float(e)) for g, e in zip(got, exp))):
                raise CaseViolation(f'{what}: agent {aid} of ANOTHER world (another model) is at {got}, expected {exp}: operations in one '
                                    f'world reached an agent with the same id in the other', trace=trace[-8:], other_world=(s_kind, s_ext))
    trace = []
    flags = set()
    pos_axes = [k for k in range(3) if ext[k] and ext[k] > 0]
    numpy_history = rng.random() < 0.3      # numbers of this history may arrive as numpy scalars; magnitudes then stay below 2^31
    # (numpy integers are fixed-width: np.int64(3) + 10**30 overflows inside numpy itself, whatever the library does)

    def hi(k):
        return ext[k] - off

    def num(k, style):
        """A coordinate/delta for axis k."""
        e = ext[k] if ext[k] else 4
        if style == 'in':
            if grid:
                return rng.randint(0, max(0, int(hi(k))) if ext[k] else 3)
            if wild:
                return rng.uniform(0, hi(k) if ext[k] else 3.0)
            return rng.randint(0, int((hi(k) if ext[k] else 3) * 8)) / 8
        if style == 'edge':
            return rng.choice([0, hi(k) if ext[k] else 0])
        if style == 'small':
            if grid:
                return rng.randint(-3, 3)
            if wild:
                return rng.choice([rng.uniform(-3, 3), -1e-17, 1e-17, 5e-324, -5e-324, rng.uniform(-1e-3, 1e-3)])
            return rng.randint(-24, 24) / 8
        if style == 'far':
            m = rng.choice([2, 3, 10, 1000, 10 ** 6, 10 ** 9] + ([10 ** 17, 2 ** 60 + 1, 10 ** 30, 10 ** 400, 2 ** 1100] if grid else []))   # ints are exact at any size (also beyond the range of a double)
            if numpy_history:
                m = rng.choice([2, 3, 10, 1000, 10 ** 6])
            s = rng.choice([-1, 1])
            if grid:
                return s * (int(e) * m + rng.randint(0, int(e)))
            if wild:
                return s * rng.uniform(e, e * m)
            return s * (int(e * 8) * m + rng.randint(0, int(e * 8))) / 8
        if style == 'just_out':
            if grid:
                return rng.choice([-1, hi(k) + 1])
            if wild:
                return rng.choice([-5e-324, math.nextafter(float(hi(k)), math.inf), -1e-9, hi(k) + 1e-9])
            return rng.choice([-0.125, hi(k) + 0.125])
        raise AssertionError(style)

    def actual(a):
        if P in a.components and rng.random() < 0.05:
            ctx.count('deprecated_alias_calls')
            check(tuple(reps.deprecated_call(a[P].getPosition)) == tuple(a[P].xyz()), 'the deprecated getPosition() differs from xyz()')
        return a[P].xyz() if P in a.components else None

    from vlib import reps


    def F(v):
        return Fraction(int(v)) if isinstance(v, np.integer) else Fraction(float(v)) if isinstance(v, np.floating) else Fraction(v)

    def R(seq):
        """The same numbers, some of them as numpy scalars (coordinates and deltas read from arrays)."""
        if not numpy_history:
            return list(seq)
        out = [reps.as_int(rng, v, 0.3) if isinstance(v, int) else reps.as_float(rng, v, 0.3) for v in seq]
        if any(type(v) is not type(o) for v, o in zip(seq, out)):
            ctx.count('calls_with_numpy_scalars')
        return out

    look_p = rng.choice([1.0, 1.0, 0.5, 0.2])          # positions are looked at after every operation, or only now and then

    def verify(who, what):
        if who is not None and rng.random() >= look_p:
            ctx.count('operations_after_which_nobody_looked')
            return
        verify_shadow(what)
        for a in agents:
            got = actual(a)
            exp = ref.get(a.id)
            ctx.ev()
            if exp is None:
                if got is not None:
                    raise CaseViolation(f'{what}: agent {a.id} is not in the world but still carries a position {got}', trace=trace[-10:])
                continue
            if got is None:
                raise CaseViolation(f'{what}: resident agent {a.id} lost its position', trace=trace[-10:])
            for k in pos_axes:
                v = got[k]
                if not (0 <= v <= hi(k)):
                    raise CaseViolation(f'{what}: agent {a.id} axis {"xyz"[k]} = {v!r} lies outside [0, {hi(k)}]',
                                        world=(kind, ext, wrap), trace=trace[-10:])
                e = exp[k]
                if isinstance(e, tuple):      # wild: (expected Fraction, tolerance, circular?)
                    d = abs(F(v) - e[0])
                    if e[2]:
                        d = min(d, abs(Fraction(ext[k]) - d))
                    if d > e[1]:
                        raise CaseViolation(f'{what}: agent {a.id} axis {"xyz"[k]} landed at {v!r}, expected {float(e[0])!r} (+-{float(e[1])})',
                                            world=(kind, ext, wrap), trace=trace[-10:])
                    exp[k] = F(v)
                elif F(v) != e:
                    raise CaseViolation(f'{what}: agent {a.id} axis {"xyz"[k]} is {v!r}, expected {float(e)!r}' +
                                        ('' if a is who else ' (an agent that was not operated on moved)'),
                                        world=(kind, ext, wrap), trace=trace[-10:])

    for _ in range(40):
        a = rng.choice(agents)
        x = rng.random()
        resident = a.id in ref
        if rng.random() < 0.012 and model.is_running():
            model.complete()          # the run is over; the world and its agents are used on (post-run analysis, the next scenario)
            ctx.count('histories_continued_after_the_model_completed')
            trace.append(('model.complete()',))
        if rng.random() < 0.03:
            # the whole set-up is duplicated (copy.deepcopy of the model and the agents) and the history goes on with the duplicate
            import copy as _copy
            ia_ = agents.index(a)
            model, agents = _copy.deepcopy((model, agents))
            env = model.environment
            a = agents[ia_]
            ctx.count('histories_continued_on_a_deep_copy')
            trace.append(('deepcopy',))
            verify(None, 'right after the set-up was deep-copied')
        if rng.random() < 0.2:
            shadow_op()
            verify(None, 'after an operation in the other world')
        if rng.random() < 0.04:
            # the documented attribute is assigned in the middle of the history: from now on moves follow the new mode
            wrap = not wrap
            env.wrap_env = wrap
            ctx.count('wrap_mode_switched_mid_history')
            trace.append(('wrap_env =', wrap))
        if not resident and x < 0.7:
            pos = [num(k, rng.choice(['in', 'in', 'edge'])) for k in range(3)]
            bad = rng.random() < 0.25 and pos_axes
            if bad:
                k = rng.choice(pos_axes)
                pos[k] = num(k, rng.choice(['just_out', 'far']))
                if 0 <= pos[k] <= hi(k):
                    bad = False
            trace.append(('add', a.id, pos, 'rejected' if bad else 'ok'))
            if bad:
                try:
                    env.add_agent(a, *R(pos))
                except Exception as e:  # noqa
                    if isinstance(e, core.DuplicateAgentError):
                        raise CaseViolation('out-of-bounds placement raised DuplicateAgentError')
                else:
                    raise CaseViolation(f'out-of-bounds placement {pos} accepted', world=(kind, ext, wrap))
                ctx.count('add_rejected')
            else:
                if rng.random() < 0.08:
                    # the deprecated spelling: same behaviour, default placement at the origin
                    import warnings
                    with warnings.catch_warnings():
                        warnings.simplefilter('ignore')
                        env.addAgent(a)
                    pos = [0, 0, 0]
                    ctx.count('deprecated_alias_calls')
                    trace[-1] = ('addAgent', a.id)
                else:
                    env.add_agent(a, *R(pos))
                ref[a.id] = [F(pos[k]) if k in pos_axes else None for k in range(3)]
                ctx.count('add_accepted')
                if any(pos[k] in (0, hi(k)) for k in pos_axes):
                    ctx.count('boundary_landings'); flags.add('edge')
            verify(a, 'after add')
        elif not resident:
            # operating on an agent that is not in the world must fail and change nothing
            trace.append(('move-absent', a.id))
            expect_raises(core.ComponentNotFoundError, 'move of an agent without position', env.move, a, 1, 1, 1)
            expect_raises(core.ComponentNotFoundError, 'move_to of an agent without position', env.move_to, a, 0, 0, 0)
            ctx.count('absent_agent_ops')
            verify(a, 'after move of absent agent')
        elif x < 0.06:
            # placing an agent whose identifier is already in the world (the resident itself, or a newcomer re-using the id) is a
            # rejected placement: it changes nothing - in particular not where the resident stands
            pos = [num(k, rng.choice(['in', 'in', 'edge'])) for k in range(3)]
            twin = a if rng.random() < 0.6 else core.Agent(a.id, model)
            trace.append(('add-again', a.id, pos, 'same object' if twin is a else 'other object, same id'))
            expect_raises(core.DuplicateAgentError, f'placing an agent whose id {a.id!r} is already in the world', env.add_agent, twin, *pos)
            ctx.count('placements_rejected_as_duplicate')
            if twin is not a and P in twin.components:
                raise CaseViolation(f'a rejected newcomer (id {a.id!r} taken) was left carrying a position {twin[P].xyz()}', trace=trace[-10:])
            verify(None, f'after the rejected second placement of {a.id} at {tuple(pos)}')
        elif x < 0.10 and len(pos_axes) >= 2:
            # a call with a wrong-typed coordinate on a LATER axis (None / a string / a list): the library refuses it part-way.  A refused
            # absolute move changes nothing; after a refused relative move every coordinate is still inside the world
            from vlib import faults
            kbad = rng.choice(pos_axes[1:])
            bad = rng.choice([None, 'x'])          # (not a list: numpy-typed stored coordinates would broadcast with it)
            if rng.random() < 0.5:
                args = [num(k, rng.choice(['far', 'small'])) for k in range(3)]
                args[kbad] = bad
                trace.append(('move-badtype', a.id, [repr(v) for v in args]))
                _, err = faults.attempt(env.move, a, *args)
                got = actual(a)
                for k in pos_axes:
                    if not (0 <= got[k] <= hi(k)):
                        raise CaseViolation(f'after a relative move that was refused part-way ({type(err).__name__}) agent {a.id} axis {"xyz"[k]} = {got[k]!r} '
                                            f'lies outside [0, {hi(k)}]', world=(kind, ext, wrap), trace=trace[-6:])
                ref[a.id] = [F(got[k]) if k in pos_axes else None for k in range(3)]
            else:
                args = [num(k, 'in') for k in range(3)]
                args[kbad] = bad
                before_ = actual(a)
                trace.append(('move_to-badtype', a.id, [repr(v) for v in args]))
                _, err = faults.attempt(env.move_to, a, *args)
                if err is None:
                    raise CaseViolation(f'move_to with {bad!r} as a coordinate was accepted', world=(kind, ext, wrap))
                if actual(a) != before_:
                    raise CaseViolation(f'a refused absolute move ({type(err).__name__}) changed the position from {before_} to {actual(a)}',
                                        world=(kind, ext, wrap), trace=trace[-6:])
            ctx.count('calls_refused_for_a_wrong_typed_coordinate')
            verify(a, 'after a call with a wrong-typed coordinate')
        elif x < 0.45:
            d = [num(k, rng.choice(['small', 'small', 'far', 'edge'])) if rng.random() < 0.8 else 0 for k in range(3)]
            trace.append(('move', a.id, d))
            old = actual(a)
            env.move(a, *R(d))
            ctx.count('moves_wrap' if wrap else 'moves_clamp')
            ctx.count('wild_ops' if wild else 'exact_ops')
            exp = ref[a.id]
            for k in pos_axes:
                s = F(old[k]) + F(d[k])
                E = Fraction(ext[k])
                if wrap:
                    t = s % E
                    if abs(s) >= 2 * E:
                        ctx.count('multi_lap_wraps'); flags.add('far')
                else:
                    t = min(max(s, 0), Fraction(hi(k)))
                    if s < 0:
                        ctx.count('saturated_low'); flags.add('far')
                    elif s > hi(k):
                        ctx.count('saturated_high'); flags.add('far')
                if wild:
                    tol = 4 * (Fraction(math.ulp(abs(float(old[k])) + abs(float(d[k])))) + Fraction(math.ulp(float(ext[k]))))
                    exp[k] = (t, tol, wrap)
                else:
                    exp[k] = t
                if t in (0, hi(k)):
                    ctx.count('boundary_landings'); flags.add('edge')
            verify(a, f'after move{tuple(d)} from {old}')
        elif x < 0.85:
            pos = [num(k, rng.choice(['in', 'in', 'edge'])) for k in range(3)]
            bad = rng.random() < 0.45 and pos_axes
            if bad:
                for k in rng.sample(pos_axes, rng.randint(1, len(pos_axes))):
                    pos[k] = num(k, rng.choice(['just_out', 'far']))
                bad = any(not (0 <= pos[k] <= hi(k)) for k in pos_axes)
            trace.append(('move_to', a.id, pos, 'rejected' if bad else 'ok'))
            if bad:
                expect_raises(IndexError, f'move_to{tuple(pos)} outside the world {ext}', env.move_to, a, *R(pos))
                ctx.count('move_to_rejected'); flags.add('rej')
            else:
                env.move_to(a, *R(pos))
                ref[a.id] = [F(pos[k]) if k in pos_axes else None for k in range(3)]
                ctx.count('move_to_accepted')
                if any(pos[k] in (0, hi(k)) for k in pos_axes):
                    ctx.count('boundary_landings'); flags.add('edge')
            verify(a, f'after move_to{tuple(pos)}')
        else:
            trace.append(('remove', a.id))
            if rng.random() < 0.1:
                import warnings
                with warnings.catch_warnings():
                    warnings.simplefilter('ignore')
                    env.removeAgent(a.id)          # deprecated spelling
                ctx.count('deprecated_alias_calls')
            else:
                env.remove_agent(a.id)
            del ref[a.id]
            ctx.count('removals')
            verify(a, 'after remove')
    ctx.state((kind, tuple(ext), wrap))
    if {'far', 'rej', 'edge'} <= flags:
        ctx.distinct((kind, tuple(ext), wrap, tuple(t[0] for t in trace)))
    if case['i'] < 3:
        ctx.sample({'kind': 'history', 'i': case['i'], 'world': kind, 'extents': ext, 'wrap': wrap, 'wild_floats': wild,
                    'trace': trace[:8]})



def case_big(ctx, case):
    """Scale regime: one world, 300-700 placements and removals (many more removals than small histories ever see), moves interleaved;
    every 10 operations the positions of ALL agents are compared with the reference."""
    rng = ctx.rng('big', case['i'])
    core, envs = fixtures()
    P = envs.PositionComponent
    model = core.Model()
    kind, env, ext, wrap = make_world(core, envs, rng, model)
    grid = kind != 'space'
    off = 1 if grid else 0
    pos_axes = [k for k in range(3) if ext[k] and ext[k] > 0]
    agents = [core.Agent(f'g{j}', model) for j in range(rng.choice([40, 120, 300]))]
    ref = {}

    def rnd(k):
        if not (ext[k] and ext[k] > 0):
            return 0
        hi = ext[k] - off
        return rng.randint(0, int(hi)) if grid else rng.randint(0, int(hi * 8)) / 8

    def verify(what):
        ctx.ev()
        for a in agents:
            exp = ref.get(a.id)
            got = a.components[P].xyz() if P in a.components else None
            if (exp is None) != (got is None):
                raise CaseViolation(f'{what}: agent {a.id} resident={exp is not None} but position present={got is not None}', world=(kind, ext, wrap))
            if exp is not None and any(Fraction(got[k]) != exp[k] for k in pos_axes):
                raise CaseViolation(f'{what}: agent {a.id} is at {got}, expected {[float(e) if e is not None else None for e in exp]}',
                                    world=(kind, ext, wrap))

    ops = rng.choice([500, 800, 1200])
    for step in range(ops):
        a = rng.choice(agents)
        x = rng.random()
        if a.id not in ref:
            pos = [rnd(k) for k in range(3)]
            env.add_agent(a, *pos)
            ref[a.id] = [Fraction(pos[k]) if k in pos_axes else None for k in range(3)]
        elif x < 0.55:
            env.remove_agent(a.id)
            del ref[a.id]
            ctx.count('removals')
        elif x < 0.8:
            d = [rng.randint(-3, 3) if grid else rng.randint(-24, 24) / 8 for _ in range(3)]
            old = a.components[P].xyz()
            env.move(a, *d)
            for k in pos_axes:
                sm = Fraction(old[k]) + Fraction(d[k])
                ref[a.id][k] = sm % Fraction(ext[k]) if wrap else min(max(sm, 0), Fraction(ext[k] - off))
            ctx.count('moves_wrap' if wrap else 'moves_clamp')
        else:
            pos = [rnd(k) for k in range(3)]
            env.move_to(a, *pos)
            ref[a.id] = [Fraction(pos[k]) if k in pos_axes else None for k in range(3)]
            ctx.count('move_to_accepted')
        if step % 10 == 0:
            verify(f'big history, operation {step}')
    verify('end of big history')
    ctx.count('big_histories')
    ctx.count('big_history_ops', ops)
    ctx.distinct(('big', kind, tuple(ext), wrap, case['i']))
    if case['i'] < 1:
        ctx.sample({'kind': 'big history', 'world': kind, 'extents': ext, 'wrap': wrap, 'agents': len(agents), 'operations': ops})


def run_case(ctx, case):
    (case_big if case.get('kind') == 'big' else case_history)(ctx, case)


def run(ctx):
    from vlib import contracts
    for i in range(N_HIST[ctx.tier]):
        if ctx.mine(i) and not ctx.full():
            ctx.run_case({'kind': 'hist', 'i': i}, run_case)
    for i in range(N_BIG[ctx.tier]):
        if ctx.mine(i) and not ctx.full():
            ctx.run_case({'kind': 'big', 'i': i}, run_case)
    for k, v in contracts.EVALS.items():
        ctx.count('contract:' + k, v)


def replay(ctx, case):
    ctx.run_case(case, run_case)
