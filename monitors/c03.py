"""C03 - component listings mirror exactly the components of the agents in the model.

History + reference model over 2-3 live models (plain and spatial): after EVERY operation, for EVERY component type and
EVERY live model, the three listing accessors are compared (identity, multiplicity, order) with
[a[T] for a in residents(M) in joining order if T in a].
Three history classes: A supported (attach/detach only while not resident: any discrepancy is a violation),
B manually synced, C unsynced (discrepancies are attributed to the known findings F1/F2/F3/F6 only by facts of the
history; anything else is a violation).
"""
from vlib.engine import CaseViolation
from vlib.util import check, same_objects

PROP = 'C03'
LEVEL = 'exploration'
SHARDS = {'quick': 4, 'thorough': 16}
TIMEOUT = {'quick': 300, 'thorough': 3000}
N_HIST = {'quick': 1600, 'thorough': 120000}
N_BIG = {'quick': 16, 'thorough': 1200}         # scale regime: 70-260 agents per population
RULE = ('cases: seeded histories of <=60 ops (join, leave, re-join, attach, detach) interleaved over 2-3 live models drawn from '
        '{Environment, SpaceWorld, DiscreteWorld, LineWorld, GridWorld}, 4-5 user component classes, agents with arbitrary subsets '
        '(incl. none), agents may re-join another live model\'s environment (migration); explicit register/deregister calls that are rejected (component not listed / already listed) in every class; class A (50%): attach/detach only while not resident; class B: resident attach/detach followed by the '
        'manual register/deregister call; class C: resident attach/detach unsynced. After every op all listings of all models '
        'are compared with the reference. Non-trivial: the history contains a leave of one of >=2 residents holding the same '
        'type, a re-join, and an empty-listing answer; distinct by (class, op trace) signature.')
ASSUMPTIONS = ['component classes use identity equality; each component instance belongs to one agent',
               'PositionComponent managed by spatial worlds is outside the claim', 'F1/F2/F3/F6 are known findings (not repaired)']
FLOORS = {'quick': {'worlds_handed_from_one_model_to_the_next': 40, 'operations_after_which_nobody_looked': 5211, 'direct_reads_of_the_pools_attribute': 59993, 'cases_in_mode_optimised': 141, 'redundant_registration_refused_in_a_copy': 649, 'deep_copied_models': 213, 'timesteps_cut_short_after_in_step_population_changes': 15, 'rejected_reg_listed': 224, 'rejected_dereg_offline': 311, 'rejected_dereg_new': 604, 'rejected_explicit_calls': 1273, 'listing_comparisons': 20000, 'classA_histories': 381, 'joins': 3000, 'leaves': 1500, 'rejoins': 500,
                    'empty_answers': 3000, 'leave_shared_type': 500, 'strict_keyerror': 1000, 'migrations': 300, 'big_populations': 8, 'in_step_leaves_observed': 30, 'explicit_reregistration_rejected': 6, 'refused_offmap_joins': 200, 'models_completed_mid_history': 150, 'populated_world_installed_later': 80,
                    'reach:Core.SystemManager.register_component': 2000, 'reach:Core.SystemManager.deregister_component': 1000},
          'thorough': {'listing_comparisons': 1000000, 'classA_histories': 29000}}
EXHAUSTIVE = {}


def _env():
    import ECAgent.Core as core
    import ECAgent.Environments as envs
    return core, envs


_comp_classes = None


def comp_classes(core):
    global _comp_classes
    if _comp_classes is None:
        _comp_classes = [type(f'K{i}', (core.Component,), {'__slots__': ()}) for i in range(5)]
        import ECAgent.Environments as envs_
        # a user component that extends the library's PositionComponent (e.g. 'Home'): an ordinary user component for the listings
        _comp_classes[4] = type('K4Home', (envs_.PositionComponent,), {'__slots__': ()})
        _comp_classes[0] = type('K0derivedFromK1', (_comp_classes[1],), {'__slots__': ()})   # subclass relation between user components
        _comp_classes.append(type('Nobody', (core.Component,), {'__slots__': ()}))
        # container-like / switch-like user components: an empty inventory has len 0, a switch that is off is falsy
        _comp_classes[2] = type('K2Inventory', (core.Component,), {'__slots__': (), '__len__': lambda self: 0})
        _comp_classes[3] = type('K3Switch', (core.Component,), {'__slots__': (), '__bool__': lambda self: False})
    return _comp_classes


class MModel:
    """One live real model + its reference.  `env` is the environment the agents live in; it is installed in the model either at
    once (model.environment = world) or later, after it has been populated (model.set_environment(world))."""

    def __init__(self, core, envs, rng, name):
        self.name = name
        self.real = core.Model()
        kind = rng.choice(['plain', 'plain', 'space', 'discrete', 'line', 'grid'])
        self.kind = kind
        env = self.real.environment
        if kind == 'space':
            env = envs.SpaceWorld(self.real, 5.0, rng.choice([0.0, 4.0]), rng.choice([0.0, 3.0]))
        elif kind == 'discrete':
            env = envs.DiscreteWorld(self.real, 3, rng.choice([0, 2]), rng.choice([0, 2]))
        elif kind == 'line':
            env = envs.LineWorld(self.real, 4)
        elif kind == 'grid':
            env = envs.GridWorld(self.real, 3, 2)
        self.env = env
        self.install_later = kind != 'plain' and rng.random() < 0.3
        if not self.install_later:
            self.real.environment = env
        self.residents = []   # RefAgent in joining order


class RefAgent:
    def __init__(self, real, mm):
        self.real, self.mm = real, mm
        self.comps = {}        # type -> component
        self.resident = False


def observe(ctx, models, types, tag):
    """Compare all accessors of all models for all types. Returns list of discrepancies (model, T, expected, got)."""
    diffs = []
    for mm in models:
        sm = mm.real.systems
        for T in types:
            exp = [a.comps[T] for a in mm.residents if T in a.comps]
            if ctx.counters.get('listing_comparisons', 0) % 5 == 1:
                # the documented attribute read directly (subscript, .get, `in`, iteration): looking at the pools does not change any answer
                pools = sm.component_pools
                try:
                    pools[T]
                except KeyError:
                    pass
                pools.get(T)
                T in pools, list(pools), len(pools)
                ctx.count('direct_reads_of_the_pools_attribute')
            if ctx.counters.get('listing_comparisons', 0) % 2:          # (the two spellings are asked in alternating order)
                got = sm[T]
                got2 = sm.get_components(T)
            else:
                got2 = sm.get_components(T)
                got = sm[T]
            if ctx.counters.get('listing_comparisons', 0) % 7 == 0:
                from vlib import reps
                got3 = reps.deprecated_call(sm.getComponents, T)            # deprecated spelling: the same listing
                ctx.count('deprecated_alias_calls')
                if (got3 is None) != (got2 is None) or (got3 is not None and not same_objects(got3, got2)):
                    diffs.append((mm, T, [a.comps[T] for a in mm.residents if T in a.comps], got3 or [], 'getComponents() differs from get_components()'))
                    continue
            ctx.ev()
            ctx.count('listing_comparisons')
            if not exp:
                ctx.count('empty_answers')
                ok = got is None and got2 is None
                try:
                    r = sm[T, True]
                    strict_ok = False
                    strict = r
                except KeyError:
                    strict_ok = True
                    strict = 'KeyError'
                    ctx.count('strict_keyerror')
                try:
                    sm.get_components(T, throw_error=True)
                    strict_ok = False
                except KeyError:
                    pass
                if not (ok and strict_ok):
                    diffs.append((mm, T, exp, got if got is not None else (got2 or []), f'empty listing answered {got!r}/{got2!r}/strict={strict!r}'))
            else:
                if got is None or got2 is None or not same_objects(got, got2):
                    diffs.append((mm, T, exp, got or got2 or [], 'accessors disagree or answer None for a non-empty listing'))
                    continue
                st = sm[T, True]
                if not same_objects(got, exp) or not same_objects(st, exp):
                    diffs.append((mm, T, exp, list(got), 'listing differs'))
    return diffs


def describe(seq, names):
    return [names.get(id(c), '?') for c in seq]


def case_history(ctx, case):
    rng = ctx.rng('hist', case['i'])
    core, envs = _env()
    K = comp_classes(core)
    ntypes = rng.choice([4, 5, 5])
    types = K[:ntypes] + [K[-1]]
    cls = rng.choices(['A', 'B', 'C'], weights=[50, 25, 25])[0]
    ctx.count(f'class{cls}_histories')
    models = [MModel(core, envs, rng, f'M{j}') for j in range(rng.randint(2, 3))]
    agents = []
    names = {}      # id(component) -> readable name
    info = {}       # id(component) -> flags
    trace = []
    flags = set()

    def new_comp(a, T):
        c = T(a.real, a.mm.real)
        names[id(c)] = f'{T.__name__}@{a.real.id}/{a.mm.name}#{len(names)}'
        info[id(c)] = {'attached_resident': False, 'registered': False, 'detached_resident': False, 'deregistered': False,
                       'obj': c}
        return c

    for mm in models:
        for j in range(rng.randint(2, 5)):
            a = RefAgent(core.Agent(f'a{j}', mm.real), mm)    # ids collide across models on purpose
            for T in types[:-1]:
                if rng.random() < 0.45:
                    c = new_comp(a, T)
                    a.real.add_component(c)
                    a.comps[T] = c
            agents.append(a)

    def fail(what, diffs):
        mm, T, exp, got, why = diffs[0]
        raise CaseViolation(f'{what}: {why} for {T.__name__} in {mm.name} ({mm.kind})', expected=describe(exp, names),
                            observed=describe(got, names), trace=trace[-25:], history_class=cls)

    def classify(diffs, after):
        """Class B/C only. Returns finding key or None (-> violation)."""
        keys = set()
        for mm, T, exp, got, why in diffs:
            got = list(got or [])
            eids, gids = [id(c) for c in exp], [id(c) for c in got]
            if len(set(gids)) != len(gids):
                return None
            missing = [c for c in exp if id(c) not in gids]
            extra = [c for c in got if id(c) not in eids]
            for c in missing:
                f = info.get(id(c))
                if not (f and f['attached_resident'] and not f['registered']):
                    return None
                keys.add('resident-attach-unlisted')
            for c in extra:
                f = info.get(id(c))
                if not (f and f['detached_resident'] and not f['deregistered']):
                    return None
                keys.add('resident-detach-stays-listed')
            if not missing and not extra:
                manual = {i for i, f in info.items() if f['registered']}
                if [i for i in eids if i not in manual] != [i for i in gids if i not in manual] or not (set(eids) & manual):
                    return None
                keys.add('manual-registration-order')
        return keys

    nops = rng.randint(25, 60)
    look_p = rng.choice([1.0, 1.0, 0.5, 0.2])          # how often the listings are looked at: after every operation, or only now and then
    complete_at = {rng.randrange(nops): rng.choice(models)} if rng.random() < 0.3 else {}
    stopped = None
    reported = set()
    for step in range(nops):
        if rng.random() < 0.5:
            # the last thing anybody asked before the next change is one random question about one random type (what an answer leaves
            # behind must not be what the next answer depends on)
            m_, T_ = rng.choice(models), rng.choice(types)
            rng.choice([lambda: m_.real.systems[T_], lambda: m_.real.systems.get_components(T_), lambda: T_ in m_.real.systems.component_pools])()
        if step in complete_at:
            complete_at[step].real.complete()        # agents keep joining and leaving a finished model (reporting, clean-up)
            ctx.count('models_completed_mid_history')
            trace.append(f'complete {complete_at[step].name}')
        for m_ in models:
            if m_.install_later and len(m_.residents) >= 2:
                m_.real.set_environment(m_.env)      # the populated world is installed now
                m_.install_later = False
                ctx.count('populated_world_installed_later')
                trace.append(f'set_environment {m_.name}')
                d1 = observe(ctx, models, types, step)
                if d1 and cls == 'A':
                    fail('after installing an already populated world with set_environment', d1)
        if rng.random() < 0.12:
            # explicit scheduler calls that are rejected (KeyError) leave every listing of every model as it was: deregistering a
            # component that is not listed (its agent is elsewhere / it is brand new / it lives in another model), registering one
            # that is listed already
            sig = lambda ds: [(m_.name, T_.__name__, [id(c_) for c_ in (g_ or [])], w_) for m_, T_, e_, g_, w_ in ds]   # noqa
            d_before = sig(observe(ctx, models, types, step))
            b = rng.choice(agents)
            target = rng.choice(models)
            how = rng.choice(['dereg_offline', 'dereg_new', 'dereg_other_model', 'reg_listed'])
            comp = None
            if how == 'dereg_offline' and not b.resident and b.comps:
                comp = rng.choice(list(b.comps.values()))
            elif how == 'dereg_new':
                comp = rng.choice(types)(b.real, target.real)
            elif how == 'dereg_other_model' and b.resident and b.comps and target is not b.mm:
                comp = rng.choice(list(b.comps.values()))
            elif how == 'reg_listed' and b.resident and b.comps:
                comp = rng.choice(list(b.comps.values()))
                target = b.mm
                listed = target.real.systems[type(comp)]
                if not (listed and any(c_ is comp for c_ in listed)):
                    comp = None
            if comp is not None:
                call = target.real.systems.register_component if how == 'reg_listed' else target.real.systems.deregister_component
                try:
                    call(comp)
                except KeyError:
                    pass
                else:
                    raise CaseViolation(f'{call.__name__} of a component that is {"already" if how == "reg_listed" else "not"} listed in '
                                        f'{target.name} was accepted', how=how, trace=trace[-10:])
                ctx.count('rejected_explicit_calls')
                ctx.count('rejected_' + how)
                trace.append(f'rejected {call.__name__} ({how}) in {target.name}')
                d_after = sig(observe(ctx, models, types, step))
                if d_after != d_before:
                    new_d = [d for d in d_after if d not in d_before] or d_after
                    raise CaseViolation(f'a rejected {call.__name__} ({how}) changed the listings: {new_d[0][3]} for {new_d[0][1]} in {new_d[0][0]}',
                                        trace=trace[-10:], history_class=cls)
        a = rng.choice(agents)
        mm = a.mm
        x = rng.random()
        if not a.resident and x < 0.5:
            # join - usually the home model, sometimes another live model's environment (migration)
            if rng.random() < 0.25:
                other = rng.choice(models)
                if other is not mm and not any(b.real.id == a.real.id for b in other.residents):
                    a.mm = mm = other
                    ctx.count('migrations')
                    flags.add('migrate')
            if any(b.real.id == a.real.id for b in mm.residents):
                continue        # id taken there (duplicate adds are C04's subject)
            env = mm.env
            if mm.kind != 'plain' and rng.random() < 0.2:
                # a join that the world refuses (off the map) must leave the listings untouched
                try:
                    env.add_agent(a.real, -1, 0, 0)
                except Exception:  # noqa
                    ctx.count('refused_offmap_joins')
                    trace.append(f'refused off-map join {a.real.id}/{mm.name}')
                else:
                    raise CaseViolation('off-map placement accepted', world=mm.kind)
                d0 = observe(ctx, models, types, step)
                if d0 and cls == 'A':
                    fail('after a refused off-map join', d0)
            if mm.kind == 'plain':
                env.add_agent(a.real)
            else:
                env.add_agent(a.real, rng.choice([0, 1, 2]), 0 if not env.height else rng.choice([0, 1]), 0)
            a.resident = True
            mm.residents.append(a)
            if getattr(a, 'left_once', False):
                ctx.count('rejoins'); flags.add('rejoin')
            ctx.count('joins')
            for c in a.comps.values():           # a join registers everything the agent holds
                info[id(c)].update(attached_resident=False, registered=False)
            trace.append(f'join {a.real.id}/{mm.name}')
        elif a.resident and x < 0.35:
            # leave
            shared = any(T in a.comps and sum(1 for b in mm.residents if T in b.comps) >= 2 for T in types)
            tainted = [c for c in a.comps.values() if info[id(c)]['attached_resident'] and not info[id(c)]['registered']]
            trace.append(f'leave {a.real.id}/{mm.name}')
            try:
                mm.env.remove_agent(a.real.id)
            except KeyError as e:
                if cls == 'C' and tainted:
                    ctx.finding('remove-agent-keyerror-unregistered-component',
                                'remove_agent raises KeyError for an agent holding a component attached while resident',
                                {'case': case, 'trace': trace[-8:]})
                    stopped = (stopped or '') + ' then F2 (history ends: state is outside the specification)'
                    break
                raise CaseViolation(f'remove_agent of a resident agent raised KeyError({e})', trace=trace[-25:], history_class=cls)
            a.resident = False
            a.left_once = True
            mm.residents.remove(a)
            ctx.count('leaves')
            if shared:
                ctx.count('leave_shared_type'); flags.add('shared')
        else:
            # attach or detach
            resident_now = a.resident
            if resident_now and cls == 'A':
                continue
            have = [T for T in types[:-1] if T in a.comps]
            lack = [T for T in types[:-1] if T not in a.comps]
            if lack and (not have or rng.random() < 0.55):
                T = rng.choice(lack)
                c = new_comp(a, T)
                if rng.random() < 0.1:
                    from vlib import reps
                    reps.deprecated_call(a.real.addComponent, c)
                    ctx.count('deprecated_alias_calls')
                else:
                    a.real.add_component(c)
                a.comps[T] = c
                trace.append(f'attach {T.__name__} {a.real.id}/{mm.name} resident={resident_now}')
                ctx.count('attach_resident' if resident_now else 'attach_offline')
                if resident_now:
                    info[id(c)]['attached_resident'] = True
                    if cls == 'B':
                        try:
                            mm.real.systems.register_component(c)
                        except KeyError:
                            ctx.count('manual_register_already')
                        info[id(c)]['registered'] = True
                        trace.append('  + register_component')
            elif have:
                T = rng.choice(have)
                c = a.comps.pop(T)
                if rng.random() < 0.1:
                    from vlib import reps
                    reps.deprecated_call(a.real.removeComponent, T)
                    ctx.count('deprecated_alias_calls')
                else:
                    a.real.remove_component(T)
                trace.append(f'detach {T.__name__} {a.real.id}/{mm.name} resident={resident_now}')
                ctx.count('detach_resident' if resident_now else 'detach_offline')
                if resident_now:
                    f = info[id(c)]
                    if f['attached_resident'] and not f['registered']:
                        pass     # never listed and now gone again: consistent
                    else:
                        f['detached_resident'] = True
                        if cls == 'B':
                            try:
                                mm.real.systems.deregister_component(c)
                            except KeyError:
                                ctx.count('manual_deregister_already')
                            f['deregistered'] = True
                            trace.append('  + deregister_component')
            else:
                continue
        if step < nops - 1 and rng.random() >= look_p:
            # nobody looks at the listings after this operation: several changes pile up between two looks (a model step that culls and
            # spawns; a listing cached and validated by its length would go stale exactly then)
            ctx.count('operations_after_which_nobody_looked')
            continue
        before_empty = ctx.counters.get('empty_answers', 0)
        diffs = observe(ctx, models, types, step)
        if ctx.counters.get('empty_answers', 0) > before_empty:
            flags.add('empty')
        if diffs:
            if cls == 'A':
                fail('supported history (attach/detach only while not resident)', diffs)
            keys = classify(diffs, step)
            if not keys:
                fail(f'class {cls} history: discrepancy not explained by a known finding', diffs)
            if cls == 'B' and keys != {'manual-registration-order'}:
                fail('manually synced history: membership differs', diffs)
            for k in keys - reported:
                mm_, T, exp, got, why = diffs[0]
                ctx.finding(k, {'resident-attach-unlisted': 'component attached to a resident agent is not listed',
                                'resident-detach-stays-listed': 'component detached from a resident agent stays listed',
                                'manual-registration-order': 'manually registered component listed out of joining order'}[k],
                            {'case': case, 'trace': trace[-8:], 'expected': describe(exp, names), 'observed': describe(got, names)})
            reported |= keys
            stopped = ','.join(sorted(reported))
    ctx.count('ops', len(trace))
    if {'rejoin', 'shared', 'empty'} <= flags:
        ctx.distinct((cls, tuple(t.split('#')[0] for t in trace)))
    if case['i'] < 3:
        ctx.sample({'kind': 'history', 'i': case['i'], 'class': cls, 'models': [(m.name, m.kind) for m in models],
                    'trace': trace[:14], 'findings_in_history': stopped})



def case_big(ctx, case):
    """Scale regime (supported usage only: components are never attached/detached while resident): hundreds of agents, large listings,
    agents leaving from INSIDE a timestep (a system removes them and the listing is read before the timestep ends), listings drained to
    nothing and re-created, explicit register_component of an already listed component (documented KeyError)."""
    rng = ctx.rng('big', case['i'])
    core, envs = _env()
    K = comp_classes(core)
    types = K[:3] + [K[-1]]
    mm = MModel(core, envs, rng, 'B0')
    mm.install_later = False
    mm.real.environment = mm.env
    names, trace = {}, []
    n = rng.choice([70, 100, 140, 260])
    agents = []
    for j in range(n):
        a = RefAgent(core.Agent(f'b{j}', mm.real), mm)
        for T in types[:-1]:
            if rng.random() < (0.9 if T is types[0] else 0.4):
                c = T(a.real, mm.real)
                names[id(c)] = f'{T.__name__}@b{j}'
                a.real.add_component(c)
                a.comps[T] = c
        agents.append(a)

    def join(a):
        if mm.kind == 'plain':
            mm.env.add_agent(a.real)
        else:
            mm.env.add_agent(a.real, 0, 0, 0)
        a.resident = True
        mm.residents.append(a)

    def leave(a):
        mm.env.remove_agent(a.real.id)
        a.resident = False
        mm.residents.remove(a)

    def must_match(what):
        d = observe(ctx, [mm], types, 0)
        if d:
            m_, T, exp, got, why = d[0]
            raise CaseViolation(f'{what}: {why} for {T.__name__} ({mm.kind}, {len(mm.residents)} residents)', expected=describe(exp, names)[:12],
                                observed=describe(got, names)[:12], n_expected=len(exp), n_observed=len(got or []), trace=trace[-8:])

    for a in agents:
        join(a)
    must_match('after all joined')
    ctx.count('big_populations')
    ctx.count('big_agents', n)

    class Reaper(core.System):
        """Removes agents while a timestep runs; it and a lower-priority system read the listings before the timestep is over."""

        def __init__(self, model, victims):
            super().__init__('reaper', model, priority=5)
            self.victims = victims

        def execute(self):
            for a in self.victims.pop(0) if self.victims else []:
                leave(a)
                trace.append(f'in-step leave {a.real.id}')
            must_match('read by the removing system inside the timestep')

    class Reader(core.System):
        def execute(self):
            must_match('read by a lower-priority system in the same timestep')

    from vlib import faults
    fail_plan = [rng.random() < 0.5 for _ in range(8)]

    class Faulty(core.System):
        """Runs after the reaper and raises now and then (ordinary exception or KeyboardInterrupt-like): the caller catches it and goes on."""

        def execute(self):
            if fail_plan and fail_plan.pop(0):
                ctx.count('timesteps_cut_short_after_in_step_population_changes')
                raise faults.make(faults.pick(rng), 'a system fails after agents left / joined in this timestep')

    class Returner(core.System):
        """Lets some of the agents that left come back, also from inside a timestep."""

        def execute(self):
            gone = [a for a in agents if not a.resident]
            for a in rng.sample(gone, min(len(gone), rng.randint(0, 2))):
                join(a)
                trace.append(f'in-step join {a.real.id}')

    rounds = [rng.sample([a for a in agents], k) for k in (3, 1, 5)]
    flat = set()
    rounds = [[a for a in r if id(a) not in flat and not flat.add(id(a))] for r in rounds]
    mm.real.systems.add_system(Reaper(mm.real, rounds))
    mm.real.systems.add_system(Reader('reader', mm.real, priority=-3))
    mm.real.systems.add_system(Returner('returner', mm.real, priority=3))
    mm.real.systems.add_system(Faulty('faulty', mm.real, priority=1))
    for _ in range(7):
        _, err = faults.attempt(mm.real.execute)
        if err is not None and not isinstance(err, (faults.Interrupt, Exception)):
            raise err
        if isinstance(err, CaseViolation):
            raise err
        ctx.count('in_step_leaves_observed')
        must_match('after a timestep (complete, or cut short by a failing system)')
    must_match('after the timesteps')
    # churn: leave from the middle, re-join, in bulk
    for _ in range(n // 2):
        a = rng.choice(agents)
        if a.resident:
            leave(a)
        else:
            join(a)
    must_match('after bulk churn')
    # drain everything, listings must report none; then re-create and re-register the founder explicitly
    for a in list(mm.residents):
        leave(a)
    must_match('after the environment was drained')
    for a in rng.sample(agents, 6):
        join(a)
    must_match('after re-creating the listings')
    founder = next((a for a in mm.residents if types[0] in a.comps), None)
    if founder is not None:
        try:
            mm.real.systems.register_component(founder.comps[types[0]])
        except KeyError:
            ctx.count('explicit_reregistration_rejected')
        else:
            raise CaseViolation('register_component accepted a component that is already listed (documented: KeyError)', trace=trace[-6:])
        must_match('after the rejected explicit re-registration')
        leave(founder)
        must_match('after the founder left')
    ctx.distinct(('big', mm.kind, n, case['i']))
    if case['i'] < 1:
        ctx.sample({'kind': 'big population', 'world': mm.kind, 'agents': n, 'trace': trace[:8]})


def case_copy(ctx, case):
    """A model that is a deep copy of a populated model (a duplicated / restored set-up) is a model like any other: its listings mirror
    ITS agents, the redundant explicit registration of a listed component is refused, leaving and re-joining work as always - and the
    original is not affected by what happens in the copy."""
    import copy as _copy
    rng = ctx.rng('copy', case['i'])
    core, envs = _env()
    K = comp_classes(core)
    types = K[:4]
    for rep_ in range(8):
        mm = MModel(core, envs, rng, 'C0')
        mm.install_later = False
        mm.real.environment = mm.env
        agents = []
        for j in range(rng.randint(2, 6)):
            a = core.Agent(f'c{j}', mm.real)
            for T in types:
                if rng.random() < 0.5:
                    a.add_component(T(a, mm.real))
            agents.append(a)
        resident = []
        for a in agents:
            if rng.random() < 0.8:
                mm.env.add_agent(a) if mm.kind == 'plain' else mm.env.add_agent(a, 0, 0, 0)
                resident.append(a)

        def listing_ok(model, res, what):
            for T in types:
                exp = [a[T] for a in res if T in a.components]
                got = model.systems[T]
                ctx.ev()
                ctx.count('listing_comparisons')
                if (got or []) != exp or len(got or []) != len(exp) or any(x is not y for x, y in zip(got or [], exp)) or (not exp and got is not None):
                    raise CaseViolation(f'{what}: listing of {T.__name__} differs from the components of the resident agents',
                                        expected=[c.agent.id for c in exp], observed=[c.agent.id for c in (got or [])], world=mm.kind)

        listing_ok(mm.real, resident, 'original model before it was copied')
        m2, agents2 = _copy.deepcopy((mm.real, agents))
        env2 = m2.environment
        res2 = [agents2[agents.index(a)] for a in resident]
        ctx.count('deep_copied_models')
        listing_ok(m2, res2, 'deep copy of a populated model')
        for a in res2:
            for T in list(a.components):
                if T in types and rng.random() < 0.5:
                    try:
                        m2.systems.register_component(a[T])
                    except KeyError:
                        ctx.count('redundant_registration_refused_in_a_copy')
                    else:
                        raise CaseViolation('in a deep copy of a model register_component accepted a component that is already listed (documented: KeyError)',
                                            component=T.__name__, agent=a.id, world=mm.kind)
        listing_ok(m2, res2, 'deep copy after the refused redundant registrations')
        for _ in range(rng.randint(1, 4)):
            if res2 and rng.random() < 0.6:
                a = rng.choice(res2)
                env2.remove_agent(a.id)
                res2.remove(a)
            else:
                out = [a for a in agents2 if not any(a is b for b in res2)]
                if out:
                    a = rng.choice(out)
                    env2.add_agent(a) if mm.kind == 'plain' else env2.add_agent(a, 0, 0, 0)
                    res2.append(a)
            listing_ok(m2, res2, 'deep copy after agents left / joined')
        listing_ok(mm.real, resident, 'original model after its copy was used')
    ctx.distinct(('copy', case['i']))


def case_rehomed(ctx, case):
    """A world that is built once and handed from one model to the next (a replication loop that re-uses an expensive grid): agents with
    components join and leave under the first model, the world is given to a second model (set_model + set_environment / assignment),
    agents join again: each model lists exactly the components of the agents that are in ITS environment now."""
    import ECAgent.Core as core
    import ECAgent.Environments as envs
    rng = ctx.rng('rehomed', case['i'])
    K = comp_classes(core)[:4]
    m1, m2 = core.Model(), core.Model()
    make = rng.choice([lambda m: core.Environment(m), lambda m: envs.GridWorld(m, 4, 3), lambda m: envs.SpaceWorld(m, 5.0, 5.0), lambda m: envs.LineWorld(m, 6)])
    world = make(m1)
    m1.environment = world
    first = []
    for j in range(rng.randint(0, 3)):
        a = core.Agent(f'f{j}', m1)
        for T in rng.sample(K, rng.randint(0, 2)):
            a.add_component(T(a, m1))
        world.add_agent(a)
        first.append(a)
    m1.systems[K[0]]
    leave_before = rng.random() < 0.7
    if leave_before:
        for a in first:
            world.remove_agent(a.id)
        first = []
    # hand-over (the old model gets a fresh default environment, as a replication loop would simply drop it)
    m1.environment = core.Environment(m1)
    world.set_model(m2)
    if rng.random() < 0.5:
        m2.set_environment(world)
    else:
        m2.environment = world
    if first:
        return                      # (residents carried over to another model: which model lists their components is not the property's business)
    second = []
    for j in range(rng.randint(1, 3)):
        a = core.Agent(f's{j}', m2)
        for T in rng.sample(K, rng.randint(1, 2)):
            a.add_component(T(a, m2))
        world.add_agent(a)
        second.append(a)
    ctx.ev()
    ctx.count('worlds_handed_from_one_model_to_the_next')
    for T in K:
        exp = [a[T] for a in second if T in a.components]
        got2, got1 = m2.systems[T], m1.systems[T]
        if not ((got2 is None and not exp) or (got2 is not None and same_objects(got2, exp))):
            raise CaseViolation(f'after a world was handed from one model to another, the new model lists {len(got2 or [])} {T.__name__} components; '
                                f'{len(exp)} agents in its environment carry one', world=type(world).__name__, old_model_lists=len(got1 or []))
        check(got1 is None, f'the model that gave its world away still lists {T.__name__} components although its environment is empty',
              world=type(world).__name__)
    for a in second:
        world.remove_agent(a.id)
    for T in K:
        check(m2.systems[T] is None and m1.systems[T] is None, 'components stay listed after their agents left the handed-over world')


def run_case(ctx, case):
    {'big': case_big, 'copy': case_copy, 'rehomed': case_rehomed}.get(case.get('kind'), case_history)(ctx, case)


def run(ctx):
    for i in range(N_HIST[ctx.tier]):
        if ctx.mine(i) and not ctx.full():
            ctx.run_case({'kind': 'hist', 'i': i}, run_case)
    for i in range(N_BIG[ctx.tier]):
        if ctx.mine(i) and not ctx.full():
            ctx.run_case({'kind': 'big', 'i': i}, run_case)
    for i in range(N_HIST[ctx.tier] // 20):
        if ctx.mine(i) and not ctx.full():
            ctx.run_case({'kind': 'copy', 'i': i}, run_case)
    for i in range(N_HIST[ctx.tier] // 10):
        if ctx.mine(i) and not ctx.full():
            ctx.run_case({'kind': 'rehomed', 'i': i}, run_case)


def replay(ctx, case):
    ctx.run_case(case, run_case)
