"""C20 - class components and default tags belong to exactly one agent class.

Per-class reference model over generated class hierarchies (Agent, siblings, multi-level subclasses, Environment and the
world classes): after EVERY op EVERY class of the hierarchy and EVERY instance is observed and compared.
The library's own classes are process-global, so each history undoes what it did to them through the public API.
"""
import numpy as np

from vlib.engine import CaseViolation
from vlib.util import check, expect_raises

PROP = 'C20'
LEVEL = 'exploration'
SHARDS = {'quick': 8, 'thorough': 16}
TIMEOUT = {'quick': 300, 'thorough': 3000}
N_HIST = {'quick': 800, 'thorough': 60000}
N_BIG = {'quick': 8, 'thorough': 300}           # scale regime: 140-520 classes; 70-200 class components on one class
RULE = ('cases: seeded histories of 20-50 ops over a hierarchy built per case: Agent, Environment, SpaceWorld, DiscreteWorld, GridWorld, '
        'LineWorld plus 3-7 fresh subclasses (siblings, 2-3 levels deep, subclasses of environments/worlds, classes created in the middle '
        'of the history); ops: add/remove class component on any class (incl. duplicate attach and absent detach), default-tag change on '
        'any class, instance creation with / without an explicit tag (incl. explicit 0 against a non-zero default) of any class, '
        'instance-level add/remove component. After every op, for every class L and component type T: L[T], T in L, len(L), L.tag, strict '
        'getter, has_class_component; for every instance: tag and own components. Non-trivial: history with a class-component and a '
        'default-tag change on a class that has both a parent and a child in the hierarchy, and instances created afterwards without '
        'an explicit tag; distinct by (hierarchy shape, op trace).')
ASSUMPTIONS = ['Agent/Environment/world classes are process-global: every history restores them through the public API in a finally block',
               'tags are plain ints']
FLOORS = {'quick': {'two_type_class_queries': 82807, 'class_components_rearranged_in_one_go': 8, 'operations_after_which_nobody_looked': 2808, 'default_changed_before_the_new_agent_was_first_looked_at': 358, 'tags_read_inside_a_user_constructor': 185, 'classes_with_a_subclass_registry_hook': 376, 'agents_saved_and_restored_across_a_default_tag_change': 91, 'constructions_that_fail': 351, 'classes_from_a_shared_namespace_dict': 702, 'instances_numpy_tag': 827, 'class_observations': 100000, 'class_attach': 2000, 'class_detach': 363, 'rejected_duplicate_attach': 150,
                    'rejected_absent_detach': 500, 'default_tag_changes': 2000, 'instances_default_tag': 1804,
                    'instances_default_tag_nonzero': 298, 'instances_explicit_tag': 800, 'instances_explicit_zero_vs_default': 100,
                    'environment_instances': 500, 'instances_added_to_environment': 1000, 'ops_on_library_classes': 2000, 'mid_history_classes': 500, 'same_named_classes': 300, 'big_many_classes': 2, 'big_many_class_components': 2,
                    'reach:Core._MetaAgent.add_class_component': 3000, 'reach:Core.Agent.__init__': 4600},
          'thorough': {'class_observations': 5000000}}
EXHAUSTIVE = {}

_T = None


def fixtures():
    global _T
    import ECAgent.Core as core
    import ECAgent.Environments as envs
    if _T is None:
        # CC0 is a plain component; CC1 is container-like (an inventory: empty -> len 0 -> falsy); CC2 is a switch that is currently off
        _T = [type('CC0', (core.Component,), {'__slots__': ()}),
              type('CC1', (core.Component,), {'__slots__': (), '__len__': lambda self: 0}),
              type('CC2', (core.Component,), {'__slots__': (), '__bool__': lambda self: False}),
              type('CC3', (core.Component,), {'__slots__': ()}), type('CC4', (core.Component,), {'__slots__': ()})]
    return core, envs, _T


def make_instance(core, envs, K, model, name, tag):
    """Creates an instance of agent class K (environments are agents too). Returns (instance, explicit_tag_used)."""
    if issubclass(K, envs.GridWorld):
        return K(model, 3, 2), False
    if issubclass(K, envs.LineWorld):
        return K(model, 4), False
    if issubclass(K, envs.DiscreteWorld):
        return K(model, 2, 2, 0), False
    if issubclass(K, envs.SpaceWorld):
        return K(model, 5.0), False
    if issubclass(K, core.Environment):
        return K(model), False
    if tag is None:
        return K(name, model), False
    return K(name, model, tag=tag), True


def case_history(ctx, case):
    rng = ctx.rng('hist', case['i'])
    core, envs, T = fixtures()
    lib = [core.Agent, core.Environment, envs.SpaceWorld, envs.DiscreteWorld, envs.GridWorld, envs.LineWorld]
    classes = list(lib)
    ref = {}
    for K in lib:       # library classes may carry state left by others: start from what they show now
        ref[K] = {'comps': {t: K[t] for t in T if t in K}, 'tag': K.tag}
    start = {K: {'comps': dict(ref[K]['comps']), 'tag': ref[K]['tag']} for K in lib}
    model = core.Model()
    instances = []      # (obj, expected_tag, {T: comp})
    trace = []
    flags = set()
    counter = [0]
    picky = set()
    shared_body = {'describe': lambda self: 'generated', 'kind': 'generated'}
    arm = [None]          # ('before' | 'after', exception class): while set, constructors of the 'picky' classes raise

    ctor_seen = []
    registry = []

    def registering_hook(cls, **kw):
        # the plug-in registry idiom: the hook does not chain to super().__init_subclass__() (object's is a no-op)
        registry.append(cls)


    def picky_init(self, *a, **kw):
        if arm[0] and arm[0][0] == 'before':
            raise arm[0][1]('validation fails before the agent is initialised')
        super(type(self), self).__init__(*a, **kw) if False else core.Agent.__init__(self, *a, **kw)
        ctor_seen.append(self.tag)           # what the rest of the user's constructor sees once the agent is initialised
        if arm[0] and arm[0][0] == 'after':
            raise arm[0][1]('validation fails after the agent was initialised')

    def new_class():
        base = rng.choice(classes)
        counter[0] += 1
        name = f'Gen{case["i"]}_{counter[0]}'
        if rng.random() < 0.3 and len(classes) > len(lib):
            # a second, distinct class with the very same name (same factory called twice, a re-run cell, one Animal class per model)
            name = rng.choice(classes[len(lib):]).__name__
            ctx.count('same_named_classes')
        if rng.random() < 0.25 and not issubclass(base, core.Environment):
            K = type(name, (base,), {'__init__': picky_init})       # a user class that validates its arguments in its constructor
            picky.add(K)
        elif rng.random() < 0.2:
            # a class that keeps a registry of its subclasses through __init_subclass__ (its own, or a mixin's listed before the agent class)
            if rng.random() < 0.5:
                K = type(name, (base,), {'__init_subclass__': classmethod(registering_hook)})
            else:
                K = type(name, (type('RegistryMixin', (), {'__init_subclass__': classmethod(registering_hook)}), base), {})
            ctx.count('classes_with_a_subclass_registry_hook')
        elif rng.random() < 0.35:
            K = type(name, (base,), shared_body)        # a family of generated classes built from ONE namespace dict (shared method bodies)
            ctx.count('classes_from_a_shared_namespace_dict')
        else:
            K = type(name, (base,), {})
        classes.append(K)
        ref[K] = {'comps': {}, 'tag': 0}
        trace.append(('class', K.__name__, base.__name__))
        return K

    def parents_children(K):
        return any(issubclass(K, P) and P is not K for P in classes), any(issubclass(C, K) and C is not K for C in classes)

    def observe(what):
        # classes and component types are visited in a different order at every look; the length is asked first or last
        for K in rng.sample(classes, len(classes)):
            r = ref[K]
            ctx.count('class_observations')
            ctx.ev()
            detail = dict(after=what, cls=K.__name__, trace=trace[-10:])
            check(K.tag == r['tag'], f'{K.__name__}.tag is {K.tag!r}, expected {r["tag"]!r}', **detail)
            len_first = rng.random() < 0.5
            if len_first:
                check(len(K) == len(r['comps']), f'len({K.__name__}) is {len(K)}, expected {len(r["comps"])} class components', **detail)
            for t in rng.sample(T, len(T)):
                c = r['comps'].get(t)
                check(K[t] is c and K.get_class_component(t) is c, f'{K.__name__}[{t.__name__}] is not the component attached to that class', **detail)
                check((t in K) == (c is not None) == K.has_class_component(t), f'{t.__name__} in {K.__name__} disagrees with the model', **detail)
                if c is None:
                    expect_raises(core.ComponentNotFoundError, f'strict getter on {K.__name__} for an absent class component',
                                  K.get_class_component, t, True)
                else:
                    check(K.get_class_component(t, True) is c, 'strict getter returned the wrong component', **detail)
            check(K.has_class_component(*[t for t in T if t in r['comps']]) is True, 'has_class_component(all attached) is not True', **detail)
            if not len_first:
                check(len(K) == len(r['comps']), f'len({K.__name__}) is {len(K)}, expected {len(r["comps"])} class components', **detail)
            # templates of two types: true exactly when both are attached to THIS class now
            t1_, t2_ = rng.sample(T, 2)
            want_ = t1_ in r['comps'] and t2_ in r['comps']
            ctx.count('two_type_class_queries')
            check(K.has_class_component(t1_, t2_) is want_, f'{K.__name__}.has_class_component({t1_.__name__}, {t2_.__name__}) is not {want_}', **detail)
        # the last class-level question of the look is a random one
        K_last = rng.choice(classes)
        rng.choice([lambda: len(K_last), lambda: K_last.has_class_component(*rng.sample(T, 2)), lambda: K_last.tag, lambda: K_last[rng.choice(T)],
                    lambda: None])()
        for obj, tag, comps in instances:
            detail = dict(after=what, instance=type(obj).__name__, trace=trace[-10:])
            check(obj.tag == tag, f'instance of {type(obj).__name__} has tag {obj.tag!r}, expected {tag!r}', **detail)
            for t in T:
                if rng.random() < 0.05:
                    from vlib import reps
                    check(reps.deprecated_call(obj.getComponent, t) is comps.get(t), f'deprecated getComponent() on an instance of {type(obj).__name__} differs', **detail)
                    ctx.count('deprecated_alias_calls')
                check(obj[t] is comps.get(t) and (t in obj) == (t in comps),
                      f'instance of {type(obj).__name__}: own component {t.__name__} changed by a class-level operation', **detail)
            n_own = len(obj.components) if isinstance(obj, core.Environment) else len(obj)   # len(environment) counts agents
            check(n_own == len(comps), f'instance of {type(obj).__name__} has {n_own} components, expected {len(comps)}', **detail)

    try:
        for _ in range(rng.randint(3, 7)):
            new_class()
        observe('hierarchy creation')
        look_p = rng.choice([1.0, 1.0, 0.5, 0.2])
        for _ in range(rng.randint(20, 50)):
            x = rng.random()
            K = rng.choice(classes)
            if K in lib:
                ctx.count('ops_on_library_classes')
            if x < 0.22:
                t = rng.choice(T)
                comp = t(K, model)
                if t in ref[K]['comps']:
                    expect_raises(ValueError, f'duplicate class component on {K.__name__}', K.add_class_component, comp, exact=True)
                    ctx.count('rejected_duplicate_attach')
                    trace.append(('attach!', K.__name__, t.__name__))
                else:
                    K.add_class_component(comp)
                    ref[K]['comps'][t] = comp
                    ctx.count('class_attach')
                    trace.append(('attach', K.__name__, t.__name__))
                    p, c = parents_children(K)
                    if p and c:
                        flags.add('mid_attach')
            elif x < 0.38:
                t = rng.choice(T)
                if ref[K]['comps'] and rng.random() < 0.7:
                    t = rng.choice(list(ref[K]['comps']))
                if t in ref[K]['comps']:
                    K.remove_class_component(t)
                    del ref[K]['comps'][t]
                    ctx.count('class_detach')
                    trace.append(('detach', K.__name__, t.__name__))
                else:
                    expect_raises(core.ComponentNotFoundError, f'detach of an absent class component on {K.__name__}',
                                  K.remove_class_component, t, exact=True)
                    ctx.count('rejected_absent_detach')
                    trace.append(('detach!', K.__name__, t.__name__))
            elif x < 0.47 and len(ref[K]['comps']) >= 2:
                # the class's components are rearranged in one go (a reload of its configuration): all detached, then most of them attached
                # again in another order, one of them possibly swapped for a type it did not have
                old_ = list(ref[K]['comps'].items())
                for t_, _ in old_:
                    K.remove_class_component(t_)
                keep_ = rng.sample(old_, len(old_))
                spare_ = [t_ for t_ in T if t_ not in ref[K]['comps']]
                if spare_ and rng.random() < 0.7:
                    t_new = rng.choice(spare_)
                    keep_[rng.randrange(len(keep_))] = (t_new, t_new(K, model))
                ref[K]['comps'] = {}
                for t_, c_ in keep_:
                    K.add_class_component(c_)
                    ref[K]['comps'][t_] = c_
                ctx.count('class_components_rearranged_in_one_go')
                trace.append(('rearrange', K.__name__, [t_.__name__ for t_, _ in keep_]))
            elif x < 0.55:
                v = rng.choice([0, 1, 2, 3, 7, -1])
                K.tag = v
                ref[K]['tag'] = v
                ctx.count('default_tag_changes')
                trace.append(('tag', K.__name__, v))
                p, c = parents_children(K)
                if p and c and v:
                    flags.add('mid_tag')
            elif x < 0.85:
                tag = rng.choice([None, None, None, 0, 0, 5, 9, np.int64(4), np.int64(0), np.int32(6)])     # tag ids may come out of a numpy array
                if isinstance(tag, np.integer):
                    ctx.count('instances_numpy_tag')
                if issubclass(K, core.Environment) and rng.random() < 0.75:
                    K = rng.choice([c for c in classes if not issubclass(c, core.Environment)])
                obj, explicit = make_instance(core, envs, K, model, f'i{len(instances)}', tag)
                exp = tag if explicit else ref[K]['tag']
                if K in picky:
                    ctx.count('tags_read_inside_a_user_constructor')
                    check(ctor_seen and ctor_seen[-1] == exp, f'inside the constructor of {K.__name__}, right after Agent.__init__, the new agent\'s tag read '
                          f'{ctor_seen[-1] if ctor_seen else None!r}; it was created {"with tag " + repr(tag) if explicit else "without a tag"} and must have {exp!r}',
                          trace=trace[-8:])
                instances.append((obj, exp, {}))
                if not explicit and rng.random() < 0.3:
                    # the class default changes right away, before anybody has looked at the new agent: it keeps the default it was created under
                    v2 = rng.choice([0, 1, 2, 3, 7, -1])
                    type(obj).tag = v2
                    ref[type(obj)]['tag'] = v2
                    ctx.count('default_changed_before_the_new_agent_was_first_looked_at')
                    trace.append(('tag', type(obj).__name__, v2))
                if not issubclass(K, core.Environment) and rng.random() < 0.5:
                    model.environment.add_agent(obj)       # joining an environment does not change an agent's tag
                    ctx.count('instances_added_to_environment')
                if explicit:
                    ctx.count('instances_explicit_tag')
                    if tag == 0 and ref[K]['tag'] != 0:
                        ctx.count('instances_explicit_zero_vs_default')
                else:
                    ctx.count('instances_default_tag')
                    if ref[K]['tag'] != 0:
                        ctx.count('instances_default_tag_nonzero')
                        if 'mid_tag' in flags:
                            flags.add('inst_after')
                if issubclass(K, core.Environment):
                    ctx.count('environment_instances')
                trace.append(('new', K.__name__, tag))
            elif x < 0.89:
                # a construction that FAILS (the class validates its arguments and raises - an ordinary error or a KeyboardInterrupt-like -
                # before or after the agent is initialised; or arguments are simply missing): the caller catches it and goes on; no class
                # default and no later instance is affected by the tag that was asked for
                from vlib import faults
                plain = [c for c in classes if not issubclass(c, core.Environment)]
                K2 = rng.choice([c for c in plain if c in picky] or plain)
                tagv = rng.choice([5, 7, 9, 11])
                if K2 in picky and rng.random() < 0.8:
                    arm[0] = (rng.choice(['before', 'after']), rng.choice([faults.Boom, ValueError, faults.Interrupt, faults.Interrupt]))
                    try:
                        _, err = faults.attempt(K2, f'x{len(instances)}', model, tag=tagv) if rng.random() < 0.7 else faults.attempt(K2, f'x{len(instances)}', model, tagv)
                    finally:
                        arm[0] = None
                else:
                    _, err = faults.attempt(K2, tag=tagv)          # the other arguments are missing
                check(err is not None, 'harness: the construction was expected to fail')
                ctx.count('constructions_that_fail')
                trace.append(('new!', K2.__name__, tagv, type(err).__name__))
            elif x < 0.905 and instances:
                # an agent is saved (its pickle state is taken), the default tag of its class changes, the agent is restored: it comes
                # back with the tag IT had - explicit or received at creation - and its own components
                import copy as _copy
                j_ = rng.randrange(len(instances))
                obj, tag, comps = instances[j_]
                if not isinstance(obj, core.Environment):
                    rv = obj.__reduce_ex__(4)
                    K_ = type(obj)
                    newdef = rng.choice([0, 1, 2, 3, 7])
                    K_.tag = newdef
                    ref[K_]['tag'] = newdef
                    restored = _copy._reconstruct(obj, None, *rv)
                    check(restored.tag == tag, f'an agent restored from its saved state has tag {restored.tag!r}; it had {tag!r} when it was saved '
                          f'(the class default changed to {newdef!r} in between)', cls=K_.__name__, trace=trace[-8:])
                    instances[j_] = (restored, tag, {t_: restored[t_] for t_ in comps})
                    check(sorted(t_.__name__ for t_ in comps) == sorted(t_.__name__ for t_ in T if t_ in restored), 'a restored agent has other components')
                    ctx.count('agents_saved_and_restored_across_a_default_tag_change')
                    trace.append(('save/restore', K_.__name__, newdef))
            elif x < 0.93 and instances:
                obj, tag, comps = rng.choice(instances)
                t = rng.choice(T)
                if t in comps:
                    obj.remove_component(t)
                    del comps[t]
                else:
                    c = t(obj, model)
                    obj.add_component(c)
                    comps[t] = c
                ctx.count('instance_component_ops')
                trace.append(('inst-comp', type(obj).__name__, t.__name__))
            else:
                new_class()
                ctx.count('mid_history_classes')
            if rng.random() < look_p:
                observe(trace[-1] if trace else 'start')
            else:
                ctx.count('operations_after_which_nobody_looked')       # several writes pile up between two looks at the classes
        observe('end of history')
    finally:
        for K in lib:       # restore the process-global classes through the public API
            for t in T:
                if t in K and t not in start[K]['comps']:
                    K.remove_class_component(t)
                elif t not in K and t in start[K]['comps']:
                    K.add_class_component(start[K]['comps'][t])
            K.tag = start[K]['tag']
    if {'mid_attach', 'mid_tag', 'inst_after'} <= flags:
        ctx.distinct((tuple(t for t in trace if t[0] == 'class'), tuple(t[:2] for t in trace)))
    if case['i'] < 3:
        ctx.sample({'kind': 'history', 'i': case['i'], 'trace': trace[:16]})



def case_big(ctx, case):
    """Scale regime: (a) hundreds of agent classes used between two looks at one class; (b) one class carrying 70-200 class components
    that are all detached again, followed by the ordinary duplicate / absent checks."""
    rng = ctx.rng('big', case['i'])
    core, envs, T = fixtures()
    model = core.Model()
    if case['i'] % 2 == 0:
        Sheep = type(f'BigSheep{case["i"]}', (core.Agent,), {})
        Lamb = type(f'BigLamb{case["i"]}', (Sheep,), {})
        Sheep.tag = 5
        comp = T[0](Sheep, model)
        Sheep.add_class_component(comp)
        others = []
        for j in range(rng.choice([140, 300, 520])):
            K = type(f'Species{case["i"]}_{j}', (rng.choice([core.Agent, Sheep] + others[-3:]),), {})
            others.append(K)
            if j % 7 == 0:
                K.tag = j
            if j % 11 == 0:
                K.add_class_component(T[1](K, model))
            inst = K(f'x{j}', model)
            want = j if j % 7 == 0 else 0
            check(inst.tag == want and K.tag == want, f'class {K.__name__}: default tag {K.tag}, instance tag {inst.tag}, expected {want}')
            check((T[1] in K) == (j % 11 == 0) and T[0] not in K, f'class {K.__name__}: class components leaked or lost')
        ctx.ev()
        ctx.count('big_many_classes')
        check(Sheep.tag == 5 and Sheep('s', model).tag == 5 and Sheep[T[0]] is comp and len(Sheep) == 1,
              f'after {len(others)} other agent classes were used, Sheep lost its default tag / class component',
              tag=Sheep.tag, instance_tag=Sheep('s2', model).tag, has=T[0] in Sheep)
        check(Lamb.tag == 0 and len(Lamb) == 0, 'the child class shows its parent\'s state')
        for j in (0, 7, 11, 77):
            if j < len(others):
                K = others[j]
                check(K.tag == (j if j % 7 == 0 else 0) and (T[1] in K) == (j % 11 == 0), f'class {K.__name__} lost its own state')
    else:
        K = type(f'Loaded{case["i"]}', (core.Agent,), {})
        Sib = type(f'LoadedSibling{case["i"]}', (core.Agent,), {})
        n = rng.choice([70, 130, 200])
        many = [type(f'CC{case["i"]}_{j}', (core.Component,), {'__slots__': ()}) for j in range(n)]
        comps = {}
        for t in many:
            comps[t] = t(K, model)
            K.add_class_component(comps[t])
        check(len(K) == n and all(K[t] is comps[t] for t in many) and len(Sib) == 0, f'class with {n} class components')
        for t in rng.sample(many, n):                 # torn down completely, no attach in between
            K.remove_class_component(t)
        check(len(K) == 0 and not any(t in K for t in many), 'detached class components are still visible')
        a, b = many[0], many[1]
        ca = a(K, model)
        K.add_class_component(ca)
        expect_raises(ValueError, 'duplicate class component after a long run of detaches', K.add_class_component, a(K, model), exact=True)
        check(K[a] is ca and len(K) == 1 and a in K and K.has_class_component(a), 'the re-attached class component is not visible')
        expect_raises(core.ComponentNotFoundError, 'detach of an absent class component after a long run of detaches', K.remove_class_component, b,
                      exact=True)
        K.add_class_component(b(K, model))
        check(len(K) == 2 and b in K and len(Sib) == 0, 'attach after the tear-down went wrong')
        ctx.ev()
        ctx.count('big_many_class_components')
    ctx.distinct(('big', case['i']))


def run_case(ctx, case):
    (case_big if case.get('kind') == 'big' else case_history)(ctx, case)


def run(ctx):
    for i in range(N_HIST[ctx.tier]):
        if ctx.mine(i) and not ctx.full():
            ctx.run_case({'kind': 'hist', 'i': i}, run_case)
    for i in range(N_BIG[ctx.tier]):
        if ctx.mine(i) and not ctx.full():
            ctx.run_case({'kind': 'big', 'i': i}, run_case)


def replay(ctx, case):
    ctx.run_case(case, run_case)
