"""C07 - same seed, same trajectory - independent of global state and other models.

(1) sha-256 digests of the full trace of a scripted model (vlib/fixtures/tracemodel.py) must be equal for one
(configuration, seed) under every ambient perturbation: global random / numpy.random reseeded and consumed between every two
framework calls, unrelated models stepped in between, fresh interpreters with different PYTHONHASHSEED, batch_run workers with
1 / 2 / 8 processes.  (2) Global-RNG watch: random.getstate() and numpy.random.get_state() must be identical before and after
every framework call the fixture makes.
"""
import json
import os
import random
import subprocess
import sys
import tempfile

import numpy as np

from vlib.engine import CaseViolation, Inconclusive, repo_root, child_python
from vlib.util import check

PROP = 'C07'
LEVEL = 'exploration'
SHARDS = {'quick': 12, 'thorough': 16}
TIMEOUT = {'quick': 400, 'thorough': 3400}
N_CFG = {'quick': 12, 'thorough': 96}
N_SEEDS = {'quick': 4, 'thorough': 12}
N_BIG = {'quick': 4, 'thorough': 64}            # scale regime: 140-420 agents, sparse templates
RULE = ('cases: seeded model configurations (plain / grid / continuous world, wrap on/off, population 4-14, system mix of births, deaths, '
        'movers, filtered random picks with templates, tags and both, shuffles, listings; an AgentCollector) x seeds (always including 0, a large seed '
        'and negative seeds); a scale regime with 140-420 agents and a component carried by ~2-5 % of them x perturbations: baseline; global random+numpy reseeded and consumed by random amounts before every framework '
        'call; 1-3 unrelated models (same and different seeds) stepped between the steps; both together; fresh interpreters with '
        'PYTHONHASHSEED 0 / 1 / 12345 / random; batch_run workers with 1, 2 and 8 processes. Oracle: all digests of one (configuration, '
        'seed) are equal; global generator states are identical before and after every watched framework call. Sanity floor: digests '
        'of different seeds of one configuration differ. Non-trivial: trajectory with >=20 random picks/shuffles whose digest was '
        'compared under >=8 perturbations; distinct by (configuration, seed).')
ASSUMPTIONS = ['"for all seeds / hash seeds / process counts" is sampled', 'the fixture draws all of its own randomness from model.random']
FLOORS = {'quick': {'configurations_whose_first_framework_draw_comes_after_completion': 1, 'configurations_whose_systems_register_more_systems_mid_timestep': 2, 'configurations_seeded_by_assignment_with_the_default_environment': 1, 'configurations_seeded_by_assigning_model_random': 1, 'deep_copied_models_compared': 160, 'recycled_worlds_with_earlier_draws': 129, 'recycled_world_comparisons': 160, 'batch_runs_open_signature_model': 8, 'digests_compared': 280, 'trajectories': 24, 'watched_calls': 20000, 'global_reseeds': 5000, 'interleaved_other_models': 500,
                    'fresh_interpreter_digests': 96, 'batch_worker_digests': 72, 'distinct_seed_pairs_differ': 30, 'big_configurations': 2, 'seed_zero_trajectories': 6,
                    'hash_seeds_used': 4, 'reach:Core.Environment.get_random_agent': 14000, 'reach:Core.Environment.shuffle': 8600},
          'thorough': {'digests_compared': 6000, 'trajectories': 500, 'watched_calls': 400000}}
EXHAUSTIVE = {}


class Hooks:
    """Perturbs the global generators before every framework call and watches that the call itself does not touch them."""

    def __init__(self, ctx, prng, perturb):
        self.ctx, self.prng, self.perturb = ctx, prng, perturb
        self.state = None
        self.violation = None

    def before(self):
        if self.perturb:
            p = self.prng
            if p.random() < 0.5:
                random.seed(p.randint(0, 10 ** 9))
                np.random.seed(p.randint(0, 2 ** 31 - 1))
                self.ctx.count('global_reseeds')
            for _ in range(p.randint(0, 3)):
                random.random()
            if p.random() < 0.5:
                np.random.random(p.randint(1, 5))
        self.state = (random.getstate(), np.random.get_state())

    def after(self, name):
        s0, n0 = self.state
        s1, n1 = random.getstate(), np.random.get_state()
        self.ctx.count('watched_calls')
        if s0 != s1 or n0[0] != n1[0] or not np.array_equal(n0[1], n1[1]) or n0[2:] != n1[2:]:
            if self.violation is None:
                self.violation = name


def gen_big_cfg(rng):
    """Scale regime: hundreds of agents, a sparse component (~2-5 % of the agents), few steps."""
    return {'world': rng.choice(['plain', 'grid']), 'w': 30, 'h': 20, 'wrap': rng.random() < 0.5, 'n': rng.choice([140, 300, 420]),
            'mix': rng.choice(['dm', 'm', 'bd']), 'steps': 3, 'rare': rng.choice([0.02, 0.03, 0.05])}


def gen_cfg(rng):
    world = rng.choice(['plain', 'grid', 'space'])
    return {'assign_seed': False, 'world': world, 'w': rng.randint(3, 9), 'h': rng.randint(3, 9), 'wrap': rng.random() < 0.5, 'n': rng.randint(4, 14),
            'mix': rng.choice(['bdm', 'bdm', 'bm', 'dm', 'bd', 'm']), 'steps': rng.randint(6, 14)}


def child_digests(jobs, hashseed):
    here = os.path.dirname(os.path.dirname(os.path.abspath(__file__)))
    fd, path = tempfile.mkstemp(prefix='c07-', suffix='.json')
    try:
        with os.fdopen(fd, 'w') as f:
            json.dump(jobs, f)
        env = dict(os.environ, VERIF_REPO=repo_root(), PYTHONDONTWRITEBYTECODE='1', PYTHONHASHSEED=str(hashseed))
        try:
            r = subprocess.run(child_python() + [os.path.join(here, 'vlib', 'fixtures', 'trace_child.py'), path], capture_output=True,
                               text=True, timeout=240, env=env, cwd=here)
        except subprocess.TimeoutExpired:
            raise Inconclusive('fresh-interpreter trajectory run timed out')
        try:
            return json.loads(r.stdout.strip().splitlines()[-1])
        except Exception:  # noqa
            raise CaseViolation('fresh-interpreter trajectory run crashed', stderr=r.stderr[-2000:], hashseed=hashseed)
    finally:
        os.unlink(path)


def case_cfg(ctx, case):
    import ECAgent.Batching as batching
    from vlib.fixtures import tracemodel as tm
    rng = ctx.rng('cfg', case['i'], case.get('big', False))
    cfg = gen_big_cfg(rng) if case.get('big') else gen_cfg(rng)
    if case.get('big'):
        ctx.count('big_configurations')
    if not case.get('big') and case['i'] % 2 == 0:
        cfg['spawn'] = True         # a system registers a batch of equal-priority systems from inside a timestep
        ctx.count('configurations_whose_systems_register_more_systems_mid_timestep')
    if not case.get('big') and case['i'] % 5 == 3:
        cfg['quiet'] = True
        cfg['world'] = 'plain'
        cfg.pop('spawn', None)
        ctx.count('configurations_whose_first_framework_draw_comes_after_completion')
    if not case.get('big') and case['i'] % 3 == 1:
        # every third configuration is seeded by assigning `model.random` (in turn with the default plain environment, which exists before
        # the assignment, and with worlds installed after it)
        cfg['assign_seed'] = True
        cfg['world'] = ['plain', 'grid', 'space'][(case['i'] // 3) % 3]
        ctx.count('configurations_seeded_by_assigning_model_random')
        if cfg['world'] == 'plain':
            ctx.count('configurations_seeded_by_assignment_with_the_default_environment')
    seeds = [0, rng.randint(1, 10 ** 6), rng.choice([2 ** 40 + 7, 1, 42]), -1, -rng.randint(2, 10 ** 9)] + \
        [rng.randint(1, 10 ** 9) for _ in range(N_SEEDS[ctx.tier] - 3)]
    if case.get('big'):
        seeds = seeds[:5:2] + seeds[3:4]          # 0, a large one, negative ones
    seeds = list(dict.fromkeys(seeds))
    digests = {s: {} for s in seeds}
    for s in seeds:
        base, m0 = tm.run_plain(cfg, s)
        digests[s]['baseline'] = base
        ctx.count('trajectories')
        if s == 0:
            ctx.count('seed_zero_trajectories')
        picks = m0.n_calls
        for name, perturb, others in (('watch-only', False, 0), ('global-rng-perturbed', True, 0), ('other-models-interleaved', False, rng.randint(1, 3)),
                                      ('perturbed+interleaved', True, rng.randint(1, 3))):
            hooks = Hooks(ctx, ctx.rng('perturb', case['i'], s, name), perturb)
            extra = [tm.TraceModel(gen_cfg(rng) if rng.random() < 0.5 else cfg, rng.choice([s, s, rng.randint(0, 99)])) for _ in range(others)]

            def between(extra=extra):
                for o in extra:
                    if o.is_running() and rng.random() < 0.7:
                        o.execute()
                        ctx.count('interleaved_other_models')
            d, m = tm.run_plain(cfg, s, hooks, between if others else None)
            digests[s][name] = d
            if hooks.violation is not None:
                raise CaseViolation(f'a framework call ({hooks.violation}) changed the state of a global random generator (random / numpy.random)',
                                    cfg=cfg, seed=s, perturbation=name)
        if picks >= 20:
            ctx.distinct((json.dumps(cfg, sort_keys=True), s))
    # fresh interpreters with different hash seeds
    jobs = [[cfg, s] for s in seeds]
    for hs in (0, 1, 12345, 'random'):
        out = child_digests(jobs, hs)
        ctx.count('hash_seeds_used')
        ctx.state(('hash', out.get('hash_of_a')))
        for s, d in zip(seeds, out['digests']):
            digests[s][f'fresh-interpreter-hashseed-{hs}'] = d
            ctx.count('fresh_interpreter_digests')
    # batch workers
    for procs in (1, 2, 8):
        # the same model class written with an explicit signature or with an open one (seed travels through **kwargs)
        cls = tm.KwTraceModel if (procs + case['i']) % 2 else tm.TraceModel
        ctx.count('batch_runs_open_signature_model' if cls is tm.KwTraceModel else 'batch_runs_explicit_signature_model')
        res = batching.batch_run(cls, {'cfg': json.dumps(cfg), 'seed': list(seeds)}, collectors='digest', processes=procs)
        got = {}
        for recs in res:
            for r in recs:
                got[r['seed']] = r['digest']
        for s in seeds:
            check(s in got, f'batch_run with {procs} processes returned no digest for seed {s}', cfg=cfg)
            digests[s][f'batch-worker-{procs}-processes'] = got[s]
            ctx.count('batch_worker_digests')
    # oracle
    for s in seeds:
        vals = digests[s]
        ctx.ev(len(vals))
        ctx.count('digests_compared', len(vals))
        if len(set(vals.values())) != 1:
            base = vals['baseline']
            raise CaseViolation('the same model code with the same seed produced different trajectories',
                                cfg=cfg, seed=s, differing={k: v[:12] for k, v in vals.items() if v != base}, baseline=base[:12],
                                equal_to_baseline=[k for k, v in vals.items() if v == base])
    for a in range(len(seeds)):
        for b in range(a + 1, len(seeds)):
            if digests[seeds[a]]['baseline'] != digests[seeds[b]]['baseline']:
                ctx.count('distinct_seed_pairs_differ')
            else:
                ctx.count('distinct_seed_pairs_equal')
    if case['i'] < 2:
        ctx.sample({'kind': 'configuration', 'cfg': cfg, 'seeds': seeds, 'perturbations': sorted(digests[seeds[0]]),
                    'digest_seed0': digests[0]['baseline'][:16]})


def case_recycled(ctx, case):
    """A world object that served a finished model A (random picks and shuffles included) is handed to a new model B with
    world.set_model(B) + B.set_environment(world): from then on everything random in it is drawn from B's generator - the same draws as B
    makes in a brand-new world - and A's generator is left alone."""
    import ECAgent.Core as core
    import ECAgent.Environments as envs
    rng = ctx.rng('recycled', case['i'])
    for rep_ in range(40):
        seed_a, seed_b = rng.randint(0, 10 ** 6), rng.randint(0, 10 ** 6)
        kind = rng.choice(['plain', 'grid', 'space'])

        def world(model):
            return model.environment if kind == 'plain' else (envs.GridWorld(model, 5, 4) if kind == 'grid' else envs.SpaceWorld(model, 6.0, 5.0))

        def populate(model, env, n, prefix):
            for j in range(n):
                a = core.Agent(f'{prefix}{j}', model, tag=j % 3)
                env.add_agent(a)

        def draws(env, n):
            out = []
            for _ in range(n):
                a = env.get_random_agent()
                out.append(a.id if a is not None else None)
                out.append([x.id for x in env.shuffle()])
                out.append([x.id for x in env.shuffle(tag=1)])
            return out

        a_model = core.Model(seed=seed_a)
        w = world(a_model)
        if kind != 'plain':
            a_model.set_environment(w)
        populate(a_model, w, rng.randint(2, 6), 'a')
        used = rng.random() < 0.85
        if used:
            draws(w, rng.randint(1, 4))
        for aid in list(w.agents):
            w.remove_agent(aid)
        a_model.complete()
        a_state = a_model.random.getstate()
        b_model = core.Model(seed=seed_b)
        w.set_model(b_model)
        b_model.set_environment(w)
        n_b, k = rng.randint(2, 7), rng.randint(2, 5)
        populate(b_model, w, n_b, 'b')
        got = draws(w, k)
        twin = core.Model(seed=seed_b)
        tw = world(twin)
        if kind != 'plain':
            twin.set_environment(tw)
        populate(twin, tw, n_b, 'b')
        exp = draws(tw, k)
        ctx.ev()
        ctx.count('recycled_world_comparisons')
        if used:
            ctx.count('recycled_worlds_with_earlier_draws')
        if got != exp:
            raise CaseViolation('a world handed over from a finished model to a new one (set_model + set_environment) does not draw from the '
                                'new model\'s generator: same seed, different random picks than in a brand-new world', world=kind,
                                seed=seed_b, recycled=got[:4], fresh=exp[:4])
        if a_model.random.getstate() != a_state:
            raise CaseViolation('random picks in a world that now belongs to model B advanced the generator of its former model A', world=kind)
        # a deep copy of a model is a model of its own: stepping / drawing in the copy leaves the original's generator alone, and both
        # make the draws an undisturbed model with that seed makes
        import copy as _copy
        b_copy = _copy.deepcopy(b_model)
        state_b = b_model.random.getstate()
        twin_copy = _copy.deepcopy(twin)
        got_c = draws(b_copy.environment, k)
        ctx.count('deep_copied_models_compared')
        if b_model.random.getstate() != state_b:
            raise CaseViolation('random picks in a deep copy of a model advanced the generator of the original model', world=kind, seed=seed_b)
        orig_next, twin_next = draws(w, k), draws(tw, k)
        if got_c != orig_next:
            # (the copy was taken AFTER the original had drawn: it carries the generator's state, not just its seed)
            raise CaseViolation('a deep copy of a model whose generator had already advanced does not continue where the original stood: its '
                                'next draws differ from the draws the original makes next', world=kind, seed=seed_b, copy_draws=got_c[:4], original_draws=orig_next[:4])
        if got_c != draws(twin_copy.environment, k) or orig_next != twin_next:
            raise CaseViolation('a model and a deep copy of it do not both continue with the draws their seed prescribes', world=kind, seed=seed_b)
    ctx.distinct(('recycled', case['i']))


def run_case(ctx, case):
    (case_recycled if case.get('kind') == 'recycled' else case_cfg)(ctx, case)


def run(ctx):
    for i in range(N_CFG[ctx.tier]):
        if ctx.mine(i) and not ctx.full():
            ctx.run_case({'kind': 'cfg', 'i': i}, run_case)
    for i in range(N_BIG[ctx.tier]):
        if ctx.mine(i) and not ctx.full():
            ctx.run_case({'kind': 'cfg', 'i': i, 'big': True}, run_case)
    for i in range(N_CFG[ctx.tier]):
        if ctx.mine(i) and not ctx.full():
            ctx.run_case({'kind': 'recycled', 'i': i}, run_case)


def replay(ctx, case):
    ctx.run_case(case, run_case)
