"""C19 - tag libraries keep a stable name<->id bijection and cannot be corrupted.

Reference list of accepted names; after EVERY op every observation of every library is compared.  The oracle does not
prescribe which hostile names are accepted: a hostile name may be accepted (then all invariants must hold for it) or rejected
with DuplicateTagError (then nothing changes); duplicates and 'NONE' must be rejected, fresh ordinary identifiers accepted.
Instance libraries: 2-3 interleaved in-process (+ icontract invariant).  Module-level library: one fresh interpreter per
history (vlib/fixtures/tags_child.py runs the same oracle there).
"""
import json
import os
import subprocess
import sys

from vlib.engine import CaseViolation, Inconclusive, repo_root, child_python
from vlib.util import check
from vlib.tagoracle import LibDriver, HOSTILE_INSTANCE, ORDINARY, gen_names, runtime_hostile, own_attribute_names

PROP = 'C19'
LEVEL = 'exploration'
SHARDS = {'quick': 4, 'thorough': 16}
TIMEOUT = {'quick': 300, 'thorough': 3000}
N_HIST = {'quick': 1500, 'thorough': 120000}
N_CHILD = {'quick': 48, 'thorough': 2400}
N_BIG = {'quick': 6, 'thorough': 200}           # scale regime: 2-3 libraries with 70-600 tags each
RULE = ('cases: (a) seeded histories of 10-40 ops over 2-3 fresh TagLibrary objects interleaved in one process: add_tag with names from '
        'ordinary identifiers, duplicates, "NONE", the library\'s own attribute/method names, dunder names, module-global names, "", '
        'names with spaces/digit-first/unicode/10 kB, plus id probes (-1, n, n+5, 10^9) and unknown-name probes; (b) the same against '
        'the module-level library (Tags.add_tag / Tags.<name> / Tags.get_tag_name / Tags.itemize) together with a fresh local library, '
        'one fresh interpreter per history. After every op: accepted add got id == previous length; name->id and id->name are mutual '
        'inverses for every accepted name; itemize() == [(name_i, i)]; len == count; rejected add changed nothing and raised '
        'DuplicateTagError; out-of-range ids raise TagNotFoundError; unknown names raise AttributeError (instance) / TagNotFoundError '
        '(module); every library operation still works; other libraries unaffected. Non-trivial history: >=3 hostile names tried, >=1 '
        'duplicate rejected and >=3 accepted tags; distinct by the name sequence.')
ASSUMPTIONS = ['which hostile names are accepted is not prescribed; ordinary identifiers (upper/camel-case words) must be accepted',
               'names are str (the quantifier ranges over strings)']
FLOORS = {'quick': {'operations_after_which_nobody_looked': 10796, 'module_attribute_names_tried_on_the_global_library': 208, 'cases_in_mode_warnings': 129, 'libraries_replaced_by_a_deep_copy': 630, 'unusable_names_tried': 752, 'module_builtin_names_used_by_the_module_tried': 20, 'short_lived_libraries': 7381, 'module_names_as_str_subclass': 33, 'names_as_str_subclass': 1489, 'local_decisions_compared': 251, 'adds_accepted': 5000, 'adds_rejected_duplicate': 1500, 'adds_rejected_none': 300, 'hostile_tried': 4000,
                    'hostile_rejected': 500, 'hostile_accepted': 500, 'id_probes': 10000, 'unknown_name_probes': 5000,
                    'full_checks': 20000, 'itemize_result_mutated': 5000, 'big_libraries': 6, 'big_tags': 800, 'module_histories': 24, 'module_hostile_tried': 210, 'contract:TagLibrary.bijection': 20000,
                    'reach:Tags.TagLibrary.add_tag': 8000},
          'thorough': {'adds_accepted': 400000, 'module_histories': 1200}}
EXHAUSTIVE = {}


def case_instances(ctx, case):
    import ECAgent.Tags as tags
    from vlib import contracts
    contracts.attach_taglibrary(tags)
    rng = ctx.rng('inst', case['i'])
    libs = [LibDriver(ctx, tags, tags.TagLibrary(), 'instance', f'L{j}') for j in range(rng.randint(2, 3))]
    names = gen_names(rng, rng.randint(10, 40), HOSTILE_INSTANCE, runtime_hostile(tags), own_attribute_names(tags))
    tried = []
    for lib_ in libs:
        lib_.look_p = rng.choice([1.0, 1.0, 0.5, 0.2])        # a library is looked at after every operation, or only now and then
    for n in names:
        lib = rng.choice(libs)
        if rng.random() < 0.05:
            import copy as _copy
            lib.lib = _copy.deepcopy(lib.lib)          # the library goes on as a deep copy of itself (all tags, same ids)
            ctx.count('libraries_replaced_by_a_deep_copy')
            lib.full_check(rng)
        if rng.random() < 0.06:
            lib.add_unusable(rng)
            for other in libs:
                other.full_check(rng)
        lib.add(n)
        tried.append((lib.label, n if len(n) < 40 else n[:20] + '...'))
        for other in libs:
            other.full_check(rng)
    for lib_ in libs:
        lib_.look_p = 1.0
        lib_.full_check(rng)
    # short-lived libraries, one after the other (each is dropped before the next is made), filled WITHOUT being looked at and then
    # checked once: a library is judged by its own tags only, whatever lived at its address before
    for j in range(rng.randint(5, 25)):
        quiet = LibDriver(ctx, tags, tags.TagLibrary(), 'instance', f'Q{j}')
        for k in range(rng.randint(1, 4)):
            name = f'Q{case["i"]}_{j}_{k}' if rng.random() < 0.7 else rng.choice(ORDINARY)
            if name not in quiet.ref:
                quiet.lib.add_tag(name)
                quiet.ref.append(name)
        quiet.full_check(rng)
        ctx.count('short_lived_libraries')
        del quiet
    hostile = sum(1 for _, n in tried if n not in ORDINARY)
    if hostile >= 3 and any(l.rejected_dups for l in libs) and sum(len(l.ref) for l in libs) >= 3 + len(libs):
        ctx.distinct(tuple(tried))
    if case['i'] < 3:
        ctx.sample({'kind': 'instance libraries', 'i': case['i'], 'ops': tried[:14],
                    'final': {l.label: l.ref[:8] for l in libs}})


def case_module(ctx, case):
    """Fresh interpreter: the module-level library cannot be reset in-process."""
    here = os.path.dirname(os.path.dirname(os.path.abspath(__file__)))
    env = dict(os.environ, VERIF_REPO=repo_root(), PYTHONHASHSEED='0', PYTHONDONTWRITEBYTECODE='1')
    cmd = child_python() + [os.path.join(here, 'vlib', 'fixtures', 'tags_child.py'), str(ctx.seed), str(case['i'])]
    try:
        r = subprocess.run(cmd, capture_output=True, text=True, timeout=120, env=env, cwd=here)
    except subprocess.TimeoutExpired:
        raise Inconclusive('module-level tag history child timed out')
    try:
        out = json.loads(r.stdout.strip().splitlines()[-1])
    except Exception:  # noqa
        raise CaseViolation('module-level tag history crashed the interpreter', stdout=r.stdout[-1500:], stderr=r.stderr[-1500:],
                            exit=r.returncode)
    for k, v in out['counters'].items():
        ctx.count(k if k.startswith('module_') else 'module_' + k, v)
    ctx.ev(out['evaluations'])
    ctx.count('module_histories')
    if out.get('violation'):
        raise CaseViolation('module-level library: ' + out['violation']['what'], **out['violation'].get('detail', {}))
    # libraries do not influence each other: whether a local library accepts a (non-duplicate) name in a process where the global
    # library is in use must be what a fresh local library decides here, where the global library has never been touched
    import ECAgent.Tags as tags
    for name, accepted in out.get('local_decisions', []):
        probe = tags.TagLibrary()
        try:
            probe.add_tag(name)
            here_accepted = True
        except tags.DuplicateTagError:
            here_accepted = False
        ctx.count('local_decisions_compared')
        if here_accepted != accepted:
            raise CaseViolation(f'a local library {"accepted" if accepted else "rejected"} the name {name[:60]!r} in a process that also uses the '
                                f'global library, but a local library {"accepts" if here_accepted else "rejects"} it where the global library is '
                                f'untouched: the libraries influence each other', tried=out['tried'][:20])
    if out.get('nontrivial'):
        ctx.distinct(('module', tuple(out['tried'])))
    if case['i'] < 2:
        ctx.sample({'kind': 'module-level library, fresh interpreter', 'i': case['i'], 'ops': out['tried'][:14], 'final': out['final'][:10]})



def case_big(ctx, case):
    """Scale regime: libraries with 70-600 tags (ids far beyond 256), two or three of them alive at once, full checks at several sizes."""
    import ECAgent.Tags as tags
    from vlib import contracts
    contracts.attach_taglibrary(tags)
    rng = ctx.rng('big', case['i'])
    libs = [LibDriver(ctx, tags, tags.TagLibrary(), 'instance', f'B{j}') for j in range(rng.randint(2, 3))]
    sizes = [rng.choice([70, 130, 280] if ctx.tier == 'quick' else [70, 130, 300, 600]) for _ in libs]
    step = 0
    while any(len(l.ref) <= n for l, n in zip(libs, sizes)):
        for l, n in zip(libs, sizes):
            if len(l.ref) <= n:
                l.add(f'GEN_{l.label}_{len(l.ref)}')          # fresh ordinary names: must all be accepted
        step += 1
        if step in (64, 65, 128, 256, 257, 599):
            for l in libs:
                l.full_check(rng)
                ctx.count('big_full_checks')
    for l in libs:
        l.full_check(rng)
        # ids built in different ways (not the very int objects the library stores)
        for i in (len(l.ref) - 1, 257, 300, int('2' + '57'), 256 + 1):
            if i < len(l.ref):
                check(l._by_id(int(str(i))) == l.ref[i], f'{l.label}: get_tag_name({i}) differs for an equal id built elsewhere')
        l.add(l.ref[len(l.ref) // 2])                         # duplicate deep inside a big library: rejected, nothing changes
    ctx.count('big_libraries', len(libs))
    ctx.count('big_tags', sum(len(l.ref) for l in libs))
    ctx.distinct(('big', tuple(sizes), case['i']))


def run_case(ctx, case):
    {'inst': case_instances, 'module': case_module, 'big': case_big}[case['kind']](ctx, case)


def run(ctx):
    from vlib import contracts
    for i in range(N_CHILD[ctx.tier]):
        if ctx.mine(i) and not ctx.full():
            ctx.run_case({'kind': 'module', 'i': i}, run_case)
    for i in range(N_HIST[ctx.tier]):
        if ctx.mine(i) and not ctx.full():
            ctx.run_case({'kind': 'inst', 'i': i}, run_case)
    for i in range(N_BIG[ctx.tier]):
        if ctx.mine(i) and not ctx.full():
            ctx.run_case({'kind': 'big', 'i': i}, run_case)
    for k, v in contracts.EVALS.items():
        ctx.count('contract:' + k, v)


def replay(ctx, case):
    ctx.run_case(case, run_case)
