"""C17 - collectors record faithfully: nothing invented, altered, lost or duplicated (fault enumeration over stop points).

Agent collector: after every timestep the record list is compared with the reference stream (deep-copied history), with the
population changing between steps and during steps (systems ordered before and after the collector).
File collector: uniquely numbered strings; after EVERY timestep (every step is a stop point) the conservation law
  file text + ''.join(records held) == everything collected so far
is checked, together with the flush cadence (after every (write_count+1)-th collection), the number of real opens (audit
hook) and that the file is a whole-flush prefix.  Thorough tier: child interpreters are killed (os._exit) after step t for every
t of short runs and the file is read from outside.
"""
import copy
import json
import os
import shutil
import subprocess
import sys
import tempfile

from vlib.engine import CaseViolation, Inconclusive, repo_root, child_python
from vlib.util import check

PROP = 'C17'
LEVEL = 'fault_enumeration'
SHARDS = {'quick': 4, 'thorough': 16}
TIMEOUT = {'quick': 300, 'thorough': 3300}
N_AGENT = {'quick': 700, 'thorough': 50000}
N_FILE = {'quick': 500, 'thorough': 30000}
N_KILL = {'quick': 6, 'thorough': 300}
N_BIG = {'quick': 16, 'thorough': 600}          # scale regime: 33-130 systems next to a collector; flush batches of 128-512 records
RULE = ('cases: (a) agent collectors: seeded runs of 30 timesteps with a population changed between timesteps by the driver and during '
        'timesteps by scripted systems ordered before (priority >= 0) and after (priority < -1) the collector; per-agent functions '
        'returning a value or None per agent, composite functions returning a dict or None per timestep, includeTimstep on/off, '
        'collector windows (start/end/frequency), default and explicit priorities; after every step the records are compared with the '
        'reference and all earlier records with their deep copies; in one run of five the model moves to a new environment in the middle of the run '
        '(some residents migrate, the others stay behind in the abandoned one); (b) file collectors: write_count 0..6, 0-3 uniquely numbered strings '
        'per collection, windows, append mode; after every step: conservation, flush cadence, opens counted by an audit hook, file = '
        'whole-flush prefix; (c) child interpreters killed after step t (every t of the run), file read from outside. Non-trivial: '
        'run with a population change during a step, an empty record skipped and an unscheduled step (a), or >=2 flushes with '
        'records held in between and an empty collection (b); distinct by the run signature.')
ASSUMPTIONS = ['file clause checked for the default clear_records_on_write=True and filemode "a" (the property\'s wording)',
               'per-agent / composite functions are pure', 'os._exit after step t stands for a crash between timesteps']
FLOORS = {'quick': {'environments_replaced_between_two_collections': 44, 'agents_rejoining_as_the_same_object': 1609, 'busy_rounds_between_two_collections': 1726, 'file_collectors_with_their_own_write_records': 53, 'second_collector_comparisons': 1790, 'runs_with_a_second_collector_using_the_same_functions': 59, 'file_collector_runs_with_a_raising_log_handler': 40, 'runs_continued_on_a_deep_copy_of_the_model': 37, 'collections_interrupted': 138, 'collection_passes_failing_half_way': 161, 'nested_models_run_inside_a_collection': 427, 'environment_installed_after_collector': 70, 'agent_steps': 10000, 'records_compared': 5000, 'empty_records_skipped': 324, 'unscheduled_steps': 2000,
                    'mid_step_population_changes': 2000, 'composite_none': 1000, 'composite_dict': 1000, 'shared_composite_dict_calls': 1000, 'history_unchanged_checks': 8000,
                    'file_steps': 4900, 'flushes': 1500, 'conservation_checks': 4900, 'empty_collections': 712, 'opens_observed': 1500,
                    'killed_children': 14, 'default_priority_runs': 200, 'big_many_systems_runs': 4, 'big_flush_batches': 4, 'collectors_attached_late': 100, 'late_collector_twin_runs': 100,
                    'reach:Collectors.AgentCollector.collect': 6500, 'reach:Collectors.FileCollector.execute': 4100,
                    'reach:Collectors.FileCollector.write_records': 1665},
          'thorough': {'agent_steps': 750000, 'file_steps': 299996, 'killed_children': 959}}
EXHAUSTIVE = {}

OPENS = {}
_hook_installed = False


def install_audit_hook():
    global _hook_installed
    if _hook_installed:
        return

    def hook(event, args):
        if event == 'open' and args and isinstance(args[0], str) and args[0] in OPENS:
            OPENS[args[0]] += 1

    sys.addaudithook(hook)
    _hook_installed = True


def fixtures():
    import ECAgent.Core as core
    import ECAgent.Collectors as col

    class Val(core.Component):
        __slots__ = ['v']

        def __init__(self, agent, model, v):
            super().__init__(agent, model)
            self.v = v

    class Churn(core.System):
        """Adds / removes agents at scripted timesteps."""

        def __init__(self, id, model, script, priority=None):
            if priority is None:
                super().__init__(id, model)          # the framework's default system priority
            else:
                super().__init__(id, model, priority=priority)
            self.script = script

        def execute(self):
            for kind, aid, v in self.script.get(self.model.systems.timestep, ()):
                env = self.model.environment
                if kind == 'add' and env.get_agent(aid) is None:
                    a = core.Agent(aid, self.model)
                    a.add_component(Val(a, self.model, v))
                    env.add_agent(a)
                elif kind == 'del' and env.get_agent(aid) is not None:
                    env.remove_agent(aid)

    class NumberedFile(col.FileCollector):
        """collect() holds 0-3 uniquely numbered strings per collection (scripted)."""

        def __init__(self, *a, plan=None, **kw):
            super().__init__(*a, **kw)
            self.plan = plan
            self.n_collections = 0
            self.everything = []

        interrupt_at = None

        def collect(self):
            t = self.model.systems.timestep
            if self.interrupt_at is not None and self.interrupt_at[0] == self.n_collections:
                exc = self.interrupt_at[1]
                self.interrupt_at = None
                raise exc('collect() is interrupted before it collected anything')
            k = self.plan[self.n_collections % len(self.plan)]
            for j in range(k):
                s = f'<{t}.{self.n_collections}.{j}>\n'
                self.records.append(s)
                self.everything.append(s)
            self.n_collections += 1

    class OwnWriter(NumberedFile):
        """... and overrides write_records() as well - the second method the class documentation names for user collectors."""

        def write_records(self):
            with open(self.filename, self.filemode) as f:
                f.writelines(self.records)

    NumberedFile.OwnWriter = OwnWriter
    return core, col, Val, Churn, NumberedFile


# ---------------------------------------------------------------------------------------------------------------------
def case_agent(ctx, case):
    rng = ctx.rng('agent', case['i'])
    core, col, Val, Churn, _ = fixtures()
    model = core.Model()
    env = model.environment
    steps = 30
    ids = [f'a{j}' for j in range(8)]
    # scripted mid-step churn: one system before the collector, one after
    def script():
        s = {}
        for t in range(steps):
            if rng.random() < 0.35:
                s[t] = [(rng.choice(['add', 'del']), rng.choice(ids), rng.randint(0, 99)) for _ in range(rng.randint(1, 2))]
        return s
    before, after, late = script(), script(), script()
    default_prio = rng.random() < 0.6
    cprio = -1 if default_prio else rng.choice([-1, 0, 1, -2])
    if default_prio:
        ctx.count('default_priority_runs')
    pb = cprio + rng.choice([0, 1, 2, 6])       # equal priority but registered earlier also runs before the collector
    pa = cprio - rng.choice([1, 4])
    twin_collector = rng.random() < 0.3     # a second collector sampling the same quantity (same functions), under another id
    model.systems.add_system(Churn('before', model, before, pb))
    if twin_collector and rng.random() < 0.6:
        after = {}                          # (no system below the collectors: they are the last to run)
    else:
        model.systems.add_system(Churn('after', model, after, pa))
    mode = rng.choice(['value', 'none_for_some', 'none_for_all'])
    comp_mode = rng.choice([None, 'dict', 'sometimes', 'never', 'shared', 'shared'])
    shared_summary = {}
    incl_t = rng.random() < 0.5
    start, end, freq = rng.choice([(0, sys.maxsize, 1), (rng.randint(0, 5), rng.randint(8, 40), rng.randint(1, 4)), (3, sys.maxsize, 2)])

    fail_after = [None]
    misuse = []

    def f(agent, _scale=None):
        # (an optional second parameter of the user's own: the collector calls the function with the agent only)
        if _scale is not None:
            misuse.append(f'the per-agent function was called with a second argument ({type(_scale).__name__})')
        if fail_after[0] is not None:
            fail_after[0] -= 1
            if fail_after[0] < 0:
                fail_after[0] = None
                from vlib import faults
                raise faults.Boom('the per-agent function fails half-way through the pass')
        v = agent[Val].v
        if mode == 'none_for_all':
            return None
        if mode == 'none_for_some' and v % 3 == 0:
            return None
        return (agent.id, v)

    def comp(agents, _weights=None):
        if _weights is not None:
            misuse.append(f'the composite function was called with a second argument ({type(_weights).__name__})')
        t = model.systems.timestep
        if comp_mode == 'never':
            return None
        if comp_mode == 'sometimes' and t % 2:
            return None
        if t % 5 == 0:
            # the composite function runs a small forecast model of its own - with a collector of its own (same default id) - to the end:
            # a nested model stepped from inside OUR collector's turn is a model like any other
            inner = core.Model()
            ia = core.Agent('i0', inner)
            ia.add_component(Val(ia, inner, 1))
            inner.environment.add_agent(ia)
            ic = col.AgentCollector(inner, lambda a: a[Val].v)
            inner.systems.add_system(ic)
            inner.execute(3)
            ctx.count('nested_models_run_inside_a_collection')
            if ic.records != [{'i0': 1}] * 3:
                raise CaseViolation('a model built and stepped 3 times from inside a collector\'s composite function did not collect one record per '
                                    'timestep', inner_records=ic.records, outer_timestep=t)
        if comp_mode == 'shared':        # a running summary: the very same dict object, updated and returned every time
            shared_summary['count'] = len(agents)
            shared_summary['sum'] = sum(a[Val].v for a in agents.values())
            ctx.count('shared_composite_dict_calls')
            return shared_summary
        return {'count': len(agents), 'sum': sum(a[Val].v for a in agents.values())}

    kw = dict(includeTimstep=incl_t, frequency=freq, start=start, end=end)
    if comp_mode is not None:
        kw['compositeFunc'] = comp
    if not default_prio:
        kw['priority'] = cprio
    c = col.AgentCollector(model, f, **kw)
    c2 = col.AgentCollector(model, f, id='second_sampler', **kw) if twin_collector else None
    if twin_collector:
        ctx.count('runs_with_a_second_collector_using_the_same_functions')
    if rng.random() < 0.35:
        # the model's environment is installed AFTER the collector was built (set-up order is the user's business; the Decoder also
        # builds systems before agents): 'the agents then in the environment' are those of the model's current environment
        import ECAgent.Environments as envs_
        new_env = rng.choice([lambda: core.Environment(model), lambda: envs_.GridWorld(model, 4, 3), lambda: envs_.SpaceWorld(model, 5.0, 5.0)])()
        if rng.random() < 0.5:
            model.set_environment(new_env)
        else:
            model.environment = new_env
        env = model.environment
        ctx.count('environment_installed_after_collector')
    register_at = rng.choice([0, 0, rng.randint(1, 7)])          # attached after a burn-in (possibly off its own grid)
    if register_at == 0:
        model.systems.add_system(c)
        if c2 is not None:
            model.systems.add_system(c2)         # same priority, registered right after: runs right after, sees the same state
    else:
        ctx.count('collectors_attached_late')
    if default_prio:
        # a system with the framework's default priority registered AFTER the collector: with default settings the collector
        # still observes the state this system leaves
        model.systems.add_system(Churn('late_default', model, late))
    parked = {}               # agents that left, by id (they may re-join as the same objects)
    pop = {}                  # reference population: id -> value, insertion ordered
    history = []              # deep copies of records as first seen
    flags = set()
    copy_at = rng.randrange(2, steps) if rng.random() < 0.2 else None
    swap_at = rng.randrange(3, steps - 3) if rng.random() < 0.2 else None
    for t in range(steps):
        if t == copy_at and (t > register_at or register_at == 0):
            # the run continues on a deep copy of the whole model (a duplicated / restored set-up): its collector records ITS agents
            import copy as _copy
            cid = c.id
            model = _copy.deepcopy(model)
            env = model.environment
            c = model.systems.systems[cid]
            c2 = model.systems.systems['second_sampler'] if c2 is not None else None
            history = [copy.deepcopy(r) for r in c.records]
            ctx.count('runs_continued_on_a_deep_copy_of_the_model')
        if t == register_at and t:
            model.systems.add_system(c)
            if c2 is not None:
                model.systems.add_system(c2)
            if default_prio:
                # keep the documented situation: a default-priority system registered AFTER the collector
                model.systems.remove_system('late_default')
                model.systems.add_system(Churn('late_default', model, late))
        # between-steps change by the driver (now and then a whole round of departures and arrivals; agents that left may come back as
        # the very same objects)
        if t == swap_at:
            # the model moves to a NEW environment in the middle of the run (after collections have happened): some residents migrate
            # (they leave the old environment and join the new one as themselves), the others stay behind in the abandoned environment -
            # from now on 'the agents then in the environment' are those of the model's current environment
            import ECAgent.Environments as envs_
            new_env = rng.choice([lambda: core.Environment(model), lambda: core.Environment(model), lambda: envs_.GridWorld(model, 4, 3)])()
            movers = [aid for aid in pop if rng.random() < 0.5]
            moved = []
            for aid in movers:
                a_ = env.get_agent(aid)
                env.remove_agent(aid)
                moved.append(a_)
            if rng.random() < 0.5:
                model.set_environment(new_env)
            else:
                model.environment = new_env
            env = model.environment
            for a_ in moved:
                env.add_agent(a_)
            pop = {a_.id: a_[Val].v for a_ in moved}
            parked = {}
            ctx.count('environments_replaced_between_two_collections')
        busy = rng.random() < 0.25
        if busy:
            ctx.count('busy_rounds_between_two_collections')
        for _ in range(rng.randint(3, 6) if busy else rng.randint(0, 2)):
            aid = rng.choice(list(pop)[-2:] + ids) if busy and pop else rng.choice(ids)          # (busy rounds favour the most recent arrivals)
            if aid in pop and rng.random() < (0.6 if busy else 0.5):
                parked[aid] = env.get_agent(aid)
                env.remove_agent(aid)
                del pop[aid]
            elif aid not in pop:
                back = parked.get(aid)
                if back is not None and copy_at is None and rng.random() < 0.6 and back.model is model:
                    env.add_agent(back)                    # the same agent object re-joins, value unchanged
                    pop[aid] = back[Val].v
                    ctx.count('agents_rejoining_as_the_same_object')
                    continue
                v = rng.randint(0, 99)
                a = core.Agent(aid, model)
                a.add_component(Val(a, model, v))
                env.add_agent(a)
                pop[aid] = v
        # what the collector must see: the population after the 'before' system acted
        ev_before, ev_late = list(before.get(t, ())), (list(late.get(t, ())) if default_prio else [])
        for kind, aid, v in (ev_before + ev_late if pb >= 0 else ev_late + ev_before):     # order of the two systems by priority
            if kind == 'add' and aid not in pop:
                pop[aid] = v
                ctx.count('mid_step_population_changes'); flags.add('mid')
            elif kind == 'del' and aid in pop:
                del pop[aid]
                ctx.count('mid_step_population_changes'); flags.add('mid')
        scheduled = t >= register_at and start <= t <= end and (t - start) % freq == 0
        exp = None
        if scheduled:
            rec = {}
            if incl_t:
                rec['timestep'] = t
            for aid, v in pop.items():
                if mode == 'none_for_all' or (mode == 'none_for_some' and v % 3 == 0):
                    continue
                rec[aid] = (aid, v)
            if comp_mode is not None:
                if comp_mode == 'never' or (comp_mode == 'sometimes' and t % 2):
                    ctx.count('composite_none')
                else:
                    rec.update({'count': len(pop), 'sum': sum(pop.values())})
                    ctx.count('composite_dict')
            exp = rec if rec else None
            if not rec:
                ctx.count('empty_records_skipped'); flags.add('empty')
        else:
            ctx.count('unscheduled_steps'); flags.add('unsched')
        for kind, aid, v in after.get(t, ()):
            if kind == 'add' and aid not in pop:
                pop[aid] = v
            elif kind == 'del' and aid in pop:
                del pop[aid]
        n_before = len(c.records)
        touched = {e_[1] for e_ in list(before.get(t, ())) + list(late.get(t, ())) + list(after.get(t, ()))}      # (the retry re-runs this timestep's scripts)
        present = [aid for aid in (exp or {}) if aid in pop and aid not in ('timestep', 'count', 'sum') and aid not in touched]
        if mode == 'value' and len(present) >= 2 and not twin_collector and rng.random() < 0.15:
            # the per-agent function raises half-way through this pass; the caller catches it, one of the agents already visited leaves,
            # and the timestep is asked for again: the record is that of the agents THEN in the environment - nothing of the failed pass
            from vlib import faults
            fail_after[0] = rng.randint(1, len(present) - 1)
            _, err = faults.attempt(model.execute)
            ctx.count('collection_passes_failing_half_way')
            check(err is not None and len(c.records) == n_before, 'a collection pass whose per-agent function raised appended a record or swallowed the error',
                  error=repr(err))
            fail_after[0] = None
            victim = present[0]
            env.remove_agent(victim)
            v_ = pop.pop(victim)
            exp.pop(victim, None)
            if 'count' in exp:
                exp['count'] -= 1
                exp['sum'] -= v_
            if comp_mode == 'shared':
                shared_summary.clear()
        model.execute()
        ctx.count('agent_steps')
        ctx.ev()
        new = c.records[n_before:]
        detail = dict(timestep=t, config=dict(mode=mode, composite=comp_mode, includeTimstep=incl_t, window=(start, end, freq),
                                             priority=c.priority, before_priority=pb))
        if exp is None:
            if new:
                raise CaseViolation('a record was appended although the collector was not scheduled / the record would be empty',
                                    appended=new, **detail)
        else:
            ctx.count('records_compared')
            if len(new) != 1 or new[0] != exp:
                raise CaseViolation('the collected record differs from the per-agent results of the agents then in the environment',
                                    expected=exp, observed=new, **detail)
        if misuse:
            raise CaseViolation(misuse[0] + ': the functions are called with the agent / the agents only', **detail)
        if c2 is not None:
            ctx.count('second_collector_comparisons')
            if c2.records != c.records or any(r1 is r2 for r1, r2 in zip(c.records, c2.records)):
                raise CaseViolation('a second agent collector with the same functions and the same schedule (another id) did not append the same records '
                                    'of its own', first=len(c.records), second=len(c2.records), second_last=c2.records[-1:], first_last=c.records[-1:],
                                    queued=[getattr(s, 'id', None) for s in model.systems.execution_queue], **detail)
        # earlier records must never be altered
        for k, old in enumerate(history):
            if c.records[k] != old:
                raise CaseViolation(f'earlier record #{k} was altered by a later collection', was=old, now=c.records[k], **detail)
        ctx.count('history_unchanged_checks')
        check(len({id(r) for r in c.records}) == len(c.records), 'two records are the same dict object', **detail)
        for r in new:
            history.append(copy.deepcopy(r))
    if {'mid', 'empty', 'unsched'} <= flags:
        ctx.distinct(('agent', mode, comp_mode, incl_t, start, end, freq, c.priority, len(history), tuple(sorted(before))))
    if case['i'] < 2:
        ctx.sample({'kind': 'agent collector', 'i': case['i'], 'config': dict(mode=mode, composite=comp_mode, includeTimstep=incl_t,
                                                                             window=(start, end if end < 10 ** 9 else 'forever', freq),
                                                                             priority=c.priority),
                    'records': c.records[:3], 'n_records': len(c.records)})


def case_late(ctx, case):
    """A system registers the collectors while a multi-step execute(n) call is running; the records must be the same as when the
    same model is advanced one step at a time (and must contain a record for every scheduled step after the registration)."""
    rng = ctx.rng('late', case['i'])
    core, col, Val, Churn, NumberedFile = fixtures()
    tmp = tempfile.mkdtemp(prefix='c17l-')
    try:
        tr = rng.randint(1, 5)
        steps = tr + rng.randint(3, 8)
        freq = rng.randint(1, 3)
        wc = rng.choice([0, 1, 2])

        def build(tag):
            model = core.Model()
            for j in range(3):
                a = core.Agent(f'a{j}', model)
                a.add_component(Val(a, model, j))
                model.environment.add_agent(a)
            path = os.path.join(tmp, f'{tag}.txt')

            class Registrar(core.System):
                def execute(self):
                    if self.model.systems.timestep == tr:
                        self.model.systems.add_system(col.AgentCollector(self.model, lambda a: a[Val].v, includeTimstep=True, frequency=freq,
                                                                         start=tr))
                        self.model.systems.add_system(NumberedFile('fc', self.model, path, write_count=wc, plan=[1, 2], start=tr))

            model.systems.add_system(Registrar('registrar', model, priority=5))
            return model, path

        multi, p1 = build('multi')
        single, p2 = build('single')
        multi.execute(steps)
        for _ in range(steps):
            single.execute()
        rec_m = multi.systems['AgentCollector'].records
        rec_s = single.systems['AgentCollector'].records
        ctx.ev()
        ctx.count('late_collector_twin_runs')
        if rec_m != rec_s:
            raise CaseViolation(f'a collector registered by a system at timestep {tr} of one execute({steps}) call recorded differently than with '
                                f'{steps} single steps', multi=rec_m[:6], single=rec_s[:6])
        want = [t for t in range(tr + 1, steps) if (t - tr) % freq == 0]
        got = [r['timestep'] for r in rec_m]
        check([t for t in got if t > tr] == want, f'collector registered at t={tr} (frequency {freq}) recorded timesteps {got}; scheduled after '
              f'the registration step: {want}')
        fm, fs = multi.systems['fc'], single.systems['fc']
        tm = open(p1).read() if os.path.exists(p1) else ''
        ts = open(p2).read() if os.path.exists(p2) else ''
        check(tm + ''.join(fm.records) == ts + ''.join(fs.records) and tm == ts,
              'file collector registered mid-call wrote differently than with single steps', multi=tm[-80:], single=ts[-80:])
        ctx.distinct(('late', tr, steps, freq, wc))
    finally:
        shutil.rmtree(tmp, ignore_errors=True)


# ---------------------------------------------------------------------------------------------------------------------
def file_plan(rng):
    return dict(write_count=rng.choice([0, 0, 1, 2, 3, 4, 5, 6]), plan=[rng.choice([0, 1, 1, 2, 3]) for _ in range(rng.randint(1, 7))],
                window=rng.choice([(0, sys.maxsize, 1), (0, sys.maxsize, 1), (rng.randint(0, 4), rng.randint(10, 40), rng.randint(1, 3))]),
                steps=rng.randint(10, 30))


def case_file(ctx, case):
    rng = ctx.rng('file', case['i'])
    core, col, Val, Churn, NumberedFile = fixtures()
    install_audit_hook()
    cfg = file_plan(rng)
    tmp = tempfile.mkdtemp(prefix='c17-')
    path = os.path.join(tmp, 'out.txt')
    OPENS[path] = 0
    try:
        model = core.Model()
        handler_raises = rng.random() < 0.25
        if handler_raises:
            # the application's logging configuration is faulty: a handler on the model's logger raises for every record it is handed.
            # Whatever the library logs (or not), nothing collected is lost or written twice
            import logging

            class HandlerBoom(Exception):
                pass

            class Raising(logging.Handler):
                def emit(self, record):
                    raise HandlerBoom(record.getMessage())
            lg = logging.getLogger(f'verif.raising.{case["i"]}')
            lg.setLevel(logging.DEBUG)
            lg.propagate = False
            lg.handlers[:] = [Raising()]
            model = core.Model(logger=lg)
            ctx.count('file_collector_runs_with_a_raising_log_handler')
        cadence_known = True
        start, end, freq = cfg['window']
        kw = dict(frequency=freq, start=start, end=end, write_count=cfg['write_count'], plan=cfg['plan'])
        if rng.random() < 0.5:
            kw['filemode'] = rng.choice(['a', 'a', 'at', 'a+'])          # every spelling of append mode
        own_writer = rng.random() < 0.35
        if own_writer:
            ctx.count('file_collectors_with_their_own_write_records')
        fc = (NumberedFile.OwnWriter if own_writer else NumberedFile)('fc', model, path, **kw)
        model.systems.add_system(fc)
        wc = cfg['write_count']
        collections, flushes, flags, my_opens = 0, 0, set(), 0
        flushed_upto = 0         # index into fc.everything written at the last expected flush
        from vlib import faults
        hits = sorted(rng.sample(range(1, 12), 2)) if rng.random() < 0.5 else []
        for t in range(cfg['steps']):
            scheduled = start <= t <= end and (t - start) % freq == 0
            if scheduled and hits and collections == hits[0]:
                # this collection is interrupted (KeyboardInterrupt-like, or an ordinary error) before it collected anything; the caller
                # catches that and asks for the timestep again: nothing is lost, nothing is written twice
                hits.pop(0)
                fc.interrupt_at = (collections, rng.choice([faults.Interrupt, faults.Interrupt, faults.Boom]))
                _, err = faults.attempt(model.execute)
                ctx.count('collections_interrupted')
                check(err is not None, 'an error raised inside collect() did not reach the caller')
                text_ = open(path).read() if os.path.exists(path) else ''
                if os.path.exists(path):
                    my_opens += 1
                if text_ + ''.join(fc.records) != ''.join(fc.everything) or text_ != ''.join(fc.everything[:flushed_upto]):
                    raise CaseViolation('after an interrupted collection: file text + records held != everything collected so far, or the file no '
                                        'longer holds exactly the whole flushes made so far (data written twice / out of cadence)',
                                        file_tail=text_[-120:], held=fc.records[-6:], error=type(err).__name__, cfg=cfg, timestep=t)
            if handler_raises:
                try:
                    model.execute()
                except HandlerBoom:
                    cadence_known = False          # the library logged and the handler blew up: only conservation is demanded from here on
                    ctx.count('log_handler_failures_during_a_step')
                    if model.systems.timestep == t:
                        model.systems.timestep = t + 1
            else:
                model.execute()
            ctx.count('file_steps')
            if not cadence_known:
                text = open(path).read() if os.path.exists(path) else ''
                if text + ''.join(fc.records) != ''.join(fc.everything):
                    raise CaseViolation('after a log handler raised inside a step: file text + records held != everything collected so far '
                                        '(lost or duplicated data)', file_tail=text[-120:], held=fc.records[-6:], cfg=cfg, timestep=t)
                continue
            if scheduled:
                collections += 1
                if cfg['plan'][(collections - 1) % len(cfg['plan'])] == 0:
                    ctx.count('empty_collections'); flags.add('emptycol')
                if collections % (wc + 1) == 0:
                    flushes += 1
                    flushed_upto = len(fc.everything)
                    ctx.count('flushes')
                elif fc.everything[flushed_upto:]:
                    flags.add('held')
            check(fc.n_collections == collections, f'collector collected {fc.n_collections} times, {collections} were scheduled', timestep=t, cfg=cfg)
            text = ''
            if os.path.exists(path):
                text = open(path).read()
                my_opens += 1
            held = ''.join(fc.records)
            everything = ''.join(fc.everything)
            ctx.ev()
            ctx.count('conservation_checks')
            detail = dict(timestep=t, cfg=cfg, collections=collections, file_tail=text[-120:], held=fc.records[-6:])
            if text + held != everything:
                raise CaseViolation('file text + records held != everything collected so far (lost, duplicated or reordered data)',
                                    expected_tail=everything[-160:], **detail)
            if text != ''.join(fc.everything[:flushed_upto]):
                raise CaseViolation(f'flush cadence: the file must hold exactly the first {flushes} whole flushes (a flush after every '
                                    f'{wc + 1} collection(s))', expected_len=len(''.join(fc.everything[:flushed_upto])), file_len=len(text), **detail)
            if OPENS[path] - my_opens != flushes:      # the read-backs above are subtracted
                raise CaseViolation(f'number of real file opens by the collector is {OPENS[path] - my_opens}, expected {flushes} flushes', **detail)
        ctx.count('opens_observed', OPENS[path] - my_opens)
        if flushes >= 2 and {'held', 'emptycol'} <= flags:
            ctx.distinct(('file', wc, tuple(cfg['plan']), cfg['window'], cfg['steps']))
        if case['i'] < 2:
            ctx.sample({'kind': 'file collector', 'i': case['i'], 'write_count': wc, 'strings_per_collection': cfg['plan'],
                        'window': (start, end if end < 10 ** 9 else 'forever', freq), 'steps': cfg['steps'], 'flushes': flushes,
                        'file_head': text[:60]})
    finally:
        OPENS.pop(path, None)
        shutil.rmtree(tmp, ignore_errors=True)


def case_kill(ctx, case):
    """A child interpreter runs the same kind of file collector and is killed (os._exit) after step t; the file is read from
    outside and must be a whole-flush prefix: exactly the collections up to the last multiple of (write_count+1)."""
    rng = ctx.rng('kill', case['i'])
    cfg = file_plan(rng)
    cfg['steps'] = rng.randint(4, 9)
    here = os.path.dirname(os.path.dirname(os.path.abspath(__file__)))
    for stop in range(cfg['steps']):
        tmp = tempfile.mkdtemp(prefix='c17k-')
        path = os.path.join(tmp, 'out.txt')
        try:
            env = dict(os.environ, VERIF_REPO=repo_root(), PYTHONHASHSEED='0', PYTHONDONTWRITEBYTECODE='1')
            arg = json.dumps(dict(cfg, path=path, stop=stop))
            try:
                r = subprocess.run(child_python() + [os.path.join(here, 'vlib', 'fixtures', 'filecollector_child.py'), arg],
                                   capture_output=True, text=True, timeout=120, env=env, cwd=here)
            except subprocess.TimeoutExpired:
                raise Inconclusive('killed-child run timed out')
            if r.returncode != 77:
                raise CaseViolation('file-collector child did not reach its kill point', exit=r.returncode, stderr=r.stderr[-1500:])
            start, end, freq = cfg['window']
            wc = cfg['write_count']
            strings, n_col = [], 0
            upto = 0
            for t in range(stop + 1):
                if start <= t <= end and (t - start) % freq == 0:
                    k = cfg['plan'][n_col % len(cfg['plan'])]
                    strings += [f'<{t}.{n_col}.{j}>\n' for j in range(k)]
                    n_col += 1
                    if n_col % (wc + 1) == 0:
                        upto = len(strings)
            text = open(path).read() if os.path.exists(path) else ''
            ctx.ev()
            ctx.count('killed_children')
            if text != ''.join(strings[:upto]):
                raise CaseViolation(f'after a crash following timestep {stop} the file is not the whole-flush prefix',
                                    cfg=cfg, expected=''.join(strings[:upto])[-200:], file=text[-200:])
        finally:
            shutil.rmtree(tmp, ignore_errors=True)
    ctx.distinct(('kill', cfg['write_count'], tuple(cfg['plan']), cfg['steps']))



def case_big(ctx, case):
    """Scale regime: (a) a default collector registered after 33-130 ordinary systems must still observe what the LAST of them leaves;
    (b) file collectors whose flush batches hold 128-512 records (write_count up to 255, several records per collection), long runs."""
    rng = ctx.rng('big', case['i'])
    core, col, Val, Churn, NumberedFile = fixtures()
    if case['i'] % 2 == 0:
        model = core.Model()
        counter = core.Agent('counter', model)
        counter.add_component(Val(counter, model, 0))
        model.environment.add_agent(counter)

        class Bump(core.System):
            def execute(self):
                counter[Val].v += 1

        k = rng.choice([33, 40, 64, 65, 130])
        for j in range(k):
            model.systems.add_system(Bump(f'bump{j}', model))           # framework default priority
        c = col.AgentCollector(model, lambda a: a[Val].v)
        model.systems.add_system(c)
        late = rng.randint(0, 2)
        for j in range(late):
            model.systems.add_system(Bump(f'late{j}', model))
        steps = rng.randint(3, 6)
        for _ in range(steps):
            model.execute()
        want = [{'counter': (k + late) * (t + 1)} for t in range(steps)]
        ctx.ev()
        ctx.count('big_many_systems_runs')
        if c.records != want:
            raise CaseViolation(f'a default collector next to {k + late} default-priority systems did not observe the state those systems leave',
                                expected=want[:3], observed=c.records[:3])
    else:
        install_audit_hook()
        tmp = tempfile.mkdtemp(prefix='c17b-')
        path = os.path.join(tmp, 'out.txt')
        try:
            wc, per = rng.choice([(255, 1), (127, 2), (63, 4), (63, 8), (31, 8), (99, 3), (255, 2)])
            model = core.Model()
            fc = NumberedFile('fc', model, path, write_count=wc, plan=[per])
            model.systems.add_system(fc)
            steps = (wc + 1) * rng.choice([1, 2, 3]) + rng.randint(0, 40)
            for t in range(steps):
                model.execute()
                if (t + 1) % (wc + 1) in (0, 1) or t == steps - 1:
                    text = open(path).read() if os.path.exists(path) else ''
                    flushed = ((t + 1) // (wc + 1)) * (wc + 1) * per
                    ctx.ev()
                    ctx.count('conservation_checks')
                    if text + ''.join(fc.records) != ''.join(fc.everything) or text != ''.join(fc.everything[:flushed]):
                        raise CaseViolation(f'file collector with write_count={wc} and {per} record(s) per collection: after {t + 1} collections the '
                                            f'file holds {len(text)} characters, {len("".join(fc.everything[:flushed]))} were due '
                                            f'(everything collected: {len("".join(fc.everything))})')
            ctx.count('big_flush_batches')
        finally:
            shutil.rmtree(tmp, ignore_errors=True)
    ctx.distinct(('big', case['i']))


def run_case(ctx, case):
    {'agent': case_agent, 'file': case_file, 'kill': case_kill, 'late': case_late, 'big': case_big}[case['kind']](ctx, case)


def run(ctx):
    for i in range(N_KILL[ctx.tier]):
        if ctx.mine(i) and not ctx.full():
            ctx.run_case({'kind': 'kill', 'i': i}, run_case)
    for i in range(N_AGENT[ctx.tier]):
        if ctx.mine(i) and not ctx.full():
            ctx.run_case({'kind': 'agent', 'i': i}, run_case)
    for i in range(N_AGENT[ctx.tier] // 3):
        if ctx.mine(i) and not ctx.full():
            ctx.run_case({'kind': 'late', 'i': i}, run_case)
    for i in range(N_FILE[ctx.tier]):
        if ctx.mine(i) and not ctx.full():
            ctx.run_case({'kind': 'file', 'i': i}, run_case)
    for i in range(N_BIG[ctx.tier]):
        if ctx.mine(i) and not ctx.full():
            ctx.run_case({'kind': 'big', 'i': i}, run_case)


def replay(ctx, case):
    ctx.run_case(case, run_case)
