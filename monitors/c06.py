"""C06 - completion is immediate and final: nothing runs after complete().

A completer system calls model.complete() at every position of the order (ties included) and at several timesteps;
completion from outside between steps; then a random tail of advance requests and registrations.  Observed: execution log,
both clocks, is_running()/bool(model), full-state snapshot around every later advance request, ModelCompleteError when asked.
The batch drivers (_run_model_for_batch, _run_model_for_search, batch_run) are checked with a model completing below / at /
above max_timesteps through collector records and the score function.
"""
import itertools

from vlib.engine import CaseViolation
from vlib.snap import snapshot, diff
from vlib.util import check, expect_raises

PROP = 'C06'
LEVEL = 'exploration'
SHARDS = {'quick': 4, 'thorough': 16}
TIMEOUT = {'quick': 300, 'thorough': 3000}
MAXN = {'quick': 5, 'thorough': 7}
N_LONGTAIL = {'quick': 60, 'thorough': 8000}    # scale regime: 110-260 requests after completion, execute(n) with n up to 1000
N_RANDOM = {'quick': 1500, 'thorough': 400000}
RULE = ('cases: (a) exhaustive: n in 1..N systems x priority pattern (distinct / ties / all equal) x completer position x completion '
        'timestep {0,1,3} (+ completion from outside between steps), each followed by a seeded tail of 5-30 requests from '
        '{execute(), execute(n), execute_systems(), execute_systems(True), add_system, remove_system, complete()}; (all of them on models with the default logger or with a quiet user logger; systems may be falsy objects and carry str-subclass ids); (b) random: windows '
        '(start/frequency) so that lower-ordered systems are due or not in the completing step; (e) systems whose execute() raises (fault in an earlier step, in the completing step before the completer, or the completer raising right after complete()), the caller catching and going on; (d) long tails: 110-260 requests after completion incl. execute(n) with n up to 1000, on models whose systems are idle at that timestep or that have no systems; (c) batch drivers with completion '
        'below/at/above max_timesteps. Oracle: systems ordered before the completer ran in the completing step, those after did '
        'not; after completion no execution is ever logged, clocks and the full model state are identical before and after every '
        'advance request, execute_systems(True) raises ModelCompleteError, is_running() and bool(model) stay False. Non-trivial: '
        '>=1 system ordered after the completer was due in the completing step; distinct by (priorities, position, timestep, tail).')
ASSUMPTIONS = ['the clock value right after the completing step is not prescribed (the unit test counts that step); it must be frozen afterwards',
               'add_system/remove_system after completion may change the registry; only advance requests must change nothing']
FLOORS = {'quick': {'batch_driver_runs_with_a_sparse_collector': 13, 'search_driver_runs_with_a_collector': 13, 'completions_in_the_last_timestep_of_the_completers_window': 175, 'completing_calls_that_also_change_the_system_set': 183, 'completions_by_a_system_registered_during_a_timestep': 100, 'runs_with_systems_whose_execute_is_inherited_from_a_mixin_or_bound_per_instance': 275, 'advance_requests_from_inside_the_completing_system': 212, 'cases_in_mode_debuglog': 196, 'cases_in_mode_optimised': 196, 'failing_system_exception': 205, 'failing_system_interrupt': 83, 'unrelated_model_steps_between_requests': 5332, 'system_faults_caught': 116, 'completer_raised_after_complete': 39, 'completions_after_system_fault': 83, 'models_with_quiet_logger': 308, 'completions_mid_step': 910, 'completions_outside': 75, 'later_system_due_in_completing_step': 500,
                    'tail_execute': 2000, 'tail_execute_n': 2000, 'tail_execute_systems': 2000, 'tail_throw': 2000,
                    'model_complete_errors': 2000, 'tail_add': 1000, 'tail_remove': 500, 'batch_driver_runs': 20,
                    'pos_first': 100, 'pos_middle': 100, 'pos_last': 100, 'multi_step_past_completion': 200, 'long_tails': 30, 'long_requests_after_completion': 1000,
                    'reach:Core.Model.complete': 1500, 'reach:Core.SystemManager.execute_systems': 10000},
          'thorough': {'completions_mid_step': 60000, 'model_complete_errors': 100000}}
EXHAUSTIVE = {}


def fixtures():
    import ECAgent.Core as core
    import ECAgent.Collectors as collectors

    class Logger(core.System):
        def __init__(self, id, model, log, when=None, **kw):
            super().__init__(id, model, **kw)
            self.log = log
            self.when = when      # timestep at which this system calls complete()

        reenter = None            # what the completer asks for, from inside its own execute(), right after complete()
        faults = ()

        def execute(self):
            _body(self)

    def _body(self):
        t = self.model.systems.timestep
        self.log.append((t, self.id))
        if self.when is not None and t == self.when:
            also = getattr(self, 'also', None)       # the completing call changes the system set as well (a one-shot system retiring itself, ...)
            if also == 'clean_up_before':
                self.clean_up()
            elif also == 'add_before':
                self.model.systems.add_system(Logger('spawned_by_completer', self.model, self.log, priority=self.spawn_priority))
            self.model.complete()
            if also == 'clean_up_after':
                self.clean_up()
            elif also == 'add_after':
                self.model.systems.add_system(Logger('spawned_by_completer', self.model, self.log, priority=self.spawn_priority))
            if self.reenter:
                # advance requests made by the completing system itself: the model is complete NOW, so they are no-ops / errors like any other
                model, n = self.model, len(self.log)
                clock = (model.timestep, model.systems.timestep)
                faults = []
                if self.reenter in ('execute', 'both'):
                    model.execute()
                    model.systems.execute_systems()
                if self.reenter in ('throw', 'both'):
                    try:
                        model.systems.execute_systems(True)
                        faults.append('execute_systems(throw_error=True) did not raise')
                    except core.ModelCompleteError:
                        pass
                if (model.timestep, model.systems.timestep) != clock:
                    faults.append(f'clock moved from {clock} to {(model.timestep, model.systems.timestep)}')
                if len(self.log) != n:
                    faults.append(f'systems ran: {self.log[n:]}')
                self.faults = faults

    class ExecMixin:
        # behaviour shared between user classes that are not all systems: the system class below does not define execute() itself
        def execute(self):
            _body(self)

    class LoggerMixed(ExecMixin, core.System):
        reenter, faults = None, ()

        def __init__(self, id, model, log, when=None, **kw):
            core.System.__init__(self, id, model, **kw)
            self.log = log
            self.when = when

    class LoggerBound(Logger):
        # execute() chosen per instance (a strategy picked at construction time)
        def __init__(self, *a, **kw):
            super().__init__(*a, **kw)
            self.execute = lambda: _body(self)

    # falsy-but-valid user systems, and systems whose execute() is not defined in the system class body
    Logger.variants = [Logger, type('LoggerSized', (Logger,), {'__len__': lambda self: 0}), type('LoggerOff', (Logger,), {'__bool__': lambda self: False}),
                       LoggerMixed, LoggerBound]
    return core, collectors, Logger


def new_model(ctx, rng, core):
    """A model; 40% of them with a user-supplied logger on which INFO is not enabled (the library only logs at INFO)."""
    from vlib import reps
    if rng.random() < 0.4:
        ctx.count('models_with_quiet_logger')
        return core.Model(logger=reps.quiet_logger())
    return core.Model()


def due(s, t):
    return s.start <= t <= s.end and (t - s.start) % s.frequency == 0


def tail(ctx, rng, core, Logger, model, log, universe=()):
    """Random requests after completion; nothing may run, advance requests may change nothing at all."""
    n_log = len(log)
    extra_ids = itertools.count()
    kinds = []
    # a second, unrelated model is alive and keeps running: it is advanced right after our completion and between our requests
    other, olog = core.Model(), []
    other.systems.add_system(Logger('s0', other, olog))
    other.execute()
    for _ in range(rng.randint(5, 30)):
        k = rng.choice(['execute', 'execute_n', 'execute_systems', 'throw', 'throw', 'add', 'remove', 'complete'])
        kinds.append(k)
        if rng.random() < 0.4:
            n_o = len(olog)
            other.execute()
            ctx.count('unrelated_model_steps_between_requests')
            check(len(olog) == n_o + 1 and other.is_running(), 'the unrelated running model did not advance normally', tail=kinds)
        if k in ('add', 'remove', 'complete'):
            if k == 'add':
                model.systems.add_system(Logger(f'late{next(extra_ids)}', model, log, priority=rng.randint(-3, 3)))
                ctx.count('tail_add')
            elif k == 'remove':
                reg = list(model.systems.systems.keys())
                if reg:
                    model.systems.remove_system(rng.choice(reg))
                    ctx.count('tail_remove')
            else:
                model.complete()
        else:
            before = snapshot(model, universe)
            if k == 'execute':
                model.execute()
                ctx.count('tail_execute')
            elif k == 'execute_n':
                model.execute(rng.randint(2, 6))
                ctx.count('tail_execute_n')
            elif k == 'execute_systems':
                model.systems.execute_systems()
                ctx.count('tail_execute_systems')
            else:
                expect_raises(core.ModelCompleteError, 'execute_systems(throw_error=True) on a complete model',
                              model.systems.execute_systems, True, exact=True)
                ctx.count('tail_throw')
                ctx.count('model_complete_errors')
            after = snapshot(model, universe)
            ctx.ev()
            if before != after:
                raise CaseViolation(f'advance request {k} on a complete model changed {diff(before, after)}',
                                    before={x: before[x] for x in diff(before, after)}, after={x: after[x] for x in diff(before, after)},
                                    tail=kinds)
        if len(log) != n_log:
            raise CaseViolation(f'a system ran after completion (request {k})', ran=log[n_log:], tail=kinds)
        check(model.is_running() is False and bool(model) is False, f'model reports running again after {k}', tail=kinds)
    return kinds


def completing_run(ctx, rng, prios, pos, tc, windows=None, via_n=False):
    core, collectors, Logger = fixtures()
    from vlib import reps
    model = new_model(ctx, rng, core)
    log = []
    systems = []
    for j, p in enumerate(prios):
        kw = dict(priority=p)
        if windows:
            kw.update(start=windows[j][0], frequency=windows[j][1])
        systems.append(reps.pick_variant(rng, Logger.variants, 0.3)(reps.as_str(rng, f's{j}', allow_enum=False), model, log, **kw))
    for s in systems:
        model.systems.add_system(s)
    order = sorted(range(len(prios)), key=lambda j: (-prios[j], j))
    completer = systems[order[pos]]
    completer.when = tc
    completer.start, completer.frequency = 0, 1          # the completer itself must be due at tc
    if rng.random() < 0.3:
        completer.also = rng.choice(['clean_up_before', 'clean_up_after', 'add_before', 'add_after'])
        completer.spawn_priority = rng.randint(-4, 4)
        ctx.count('completing_calls_that_also_change_the_system_set')
    if rng.random() < 0.3:
        completer.end = tc          # the completing system's own window closes with the timestep in which it completes the model
        ctx.count('completions_in_the_last_timestep_of_the_completers_window')
    if rng.random() < 0.35:
        completer.reenter = rng.choice(['execute', 'throw', 'both'])
        ctx.count('advance_requests_from_inside_the_completing_system')
    if any(type(s).__name__ in ('LoggerMixed', 'LoggerBound') for s in systems):
        ctx.count('runs_with_systems_whose_execute_is_inherited_from_a_mixin_or_bound_per_instance')
    # run up to and including the completing step
    if via_n:
        n_req = tc + 1 + rng.randint(0, 3)
        model.execute(n_req)       # execute(n) running past the completion: the rest are no-ops
        # ... and must be equivalent to n_req single steps on an identically built twin (clock and log)
        twin = core.Model()
        tlog = []
        for j, p in enumerate(prios):
            s0 = systems[j]
            twin.systems.add_system(type(s0)(s0.id, twin, tlog, when=s0.when, priority=p, start=s0.start, frequency=s0.frequency))
        for _ in range(n_req):
            twin.execute()
        ctx.count('multi_step_past_completion' if n_req > tc + 1 else 'multi_step_to_completion')
        if (model.timestep, log) != (twin.timestep, tlog):
            raise CaseViolation(f'execute({n_req}) with completion at step {tc} is not equivalent to {n_req} single steps '
                                f'(later steps of the request must leave the timestep untouched)', clock_multi=model.timestep,
                                clock_single_steps=twin.timestep, log_multi=log[-6:], log_single=tlog[-6:])
    else:
        for _ in range(tc + 1):
            check(model.is_running() and bool(model), 'model not running before completion')
            model.execute()
    if completer.faults:
        raise CaseViolation('advance requests made by the completing system right after complete(): ' + '; '.join(completer.faults),
                            reenter=completer.reenter, priorities=prios, tc=tc)
    step_log = [i for (t, i) in log if t == tc]
    before = [systems[j] for j in order[:pos] if due(systems[j], tc)]
    after = [systems[j] for j in order[pos + 1:] if due(systems[j], tc)]
    exp = [s.id for s in before] + [completer.id]
    ctx.ev()
    if step_log != exp:
        raise CaseViolation('completing timestep: systems after the completer must be skipped, those before it must have run',
                            expected=exp, observed=step_log, priorities=prios, completer=completer.id, tc=tc,
                            skipped_should_be=[s.id for s in after])
    check(not any(t > tc for (t, i) in log), 'a system ran in a timestep after completion', log=log[-6:])
    check(model.is_running() is False and bool(model) is False, 'model still reports running after complete()')
    ctx.count('completions_mid_step')
    if after:
        ctx.count('later_system_due_in_completing_step')
    ctx.count('pos_first' if pos == 0 else ('pos_last' if pos == len(prios) - 1 else 'pos_middle'))
    clock = (model.timestep, model.systems.timestep)
    check(clock[0] == clock[1], 'model.timestep != systems.timestep after completion')
    kinds = tail(ctx, rng, core, Logger, model, log)
    check((model.timestep, model.systems.timestep) == clock, 'clock moved after completion', before=clock,
          after=(model.timestep, model.systems.timestep))
    return bool(after), kinds


def case_ex(ctx, case):
    rng = ctx.rng('ex', case['idx'])
    nt, kinds = completing_run(ctx, rng, case['prios'], case['pos'], case['tc'], via_n=case['via_n'])
    if nt:
        ctx.distinct(('ex', tuple(case['prios']), case['pos'], case['tc'], case['via_n'], tuple(kinds)))
    ctx.state((tuple(case['prios']), case['pos'], case['tc']))


def case_outside(ctx, case):
    rng = ctx.rng('out', case['i'])
    core, collectors, Logger = fixtures()
    model = new_model(ctx, rng, core)
    log = []
    for j in range(rng.randint(0, 5)):
        model.systems.add_system(Logger(f's{j}', model, log, priority=rng.randint(-2, 2)))
    for _ in range(rng.randint(0, 4)):
        model.execute()
    n = len(log)
    clock = model.timestep
    model.complete()
    ctx.count('completions_outside')
    check(model.is_running() is False and bool(model) is False, 'model still reports running after complete() from outside')
    kinds = tail(ctx, rng, core, Logger, model, log)
    check(len(log) == n and model.timestep == clock == model.systems.timestep, 'state moved after outside completion')
    ctx.distinct(('out', case['i'] % 50, tuple(kinds)))


def case_rand(ctx, case):
    rng = ctx.rng('rand', case['i'])
    n = rng.randint(2, 7)
    levels = rng.sample(range(-3, 4), rng.randint(1, 3))
    prios = [rng.choice(levels) for _ in range(n)]
    windows = [(rng.randint(-2, 3), rng.randint(1, 3)) for _ in range(n)]
    nt, kinds = completing_run(ctx, rng, prios, rng.randrange(n), rng.randint(0, 6), windows=windows, via_n=rng.random() < 0.3)
    if nt:
        ctx.distinct(('rand', tuple(prios), tuple(windows), tuple(kinds)))
    if case['i'] < 2:
        ctx.sample({'kind': 'random', 'priorities': prios, 'windows(start,freq)': windows, 'tail': kinds})


# ---- batch drivers -----------------------------------------------------------------------------------------------
class BModel:
    pass


def case_batch(ctx, case):
    """Model completing at tc, run by the batch drivers with max_timesteps below / at / above tc."""
    import ECAgent.Batching as batching
    from vlib.fixtures import batchmodels as bm
    rng = ctx.rng('batch', case['i'])
    tc = rng.randint(0, 6)
    for limit in (max(0, tc - 2), tc, tc + 1, tc + 4, None):
        kw = {} if limit is None else {'max_timesteps': limit}
        rec = batching._run_model_for_batch(bm.CompletingModel, {'tc': tc, 'n_before': 2, 'n_after': 2}, collectors='trace', **kw)
        ctx.count('batch_driver_runs')
        lim = 10 ** 9 if limit is None else limit
        # the trace collector (priority -10) runs last in each step and records (t, ran-ids-so-far-this-step)
        last_full = min(tc, lim)
        exp_steps = list(range(last_full))
        got_steps = [r['t'] for r in rec]
        ctx.ev()
        check(got_steps == exp_steps, f'_run_model_for_batch tc={tc} max_timesteps={limit}: collector saw steps {got_steps}, expected {exp_steps}',
              records=rec)
        for r in rec:
            check(r['ran'] == ['b0', 'b1', 'completer', 'a0', 'a1'], 'wrong systems in a step before completion', record=r)
        # ... and with a collector that samples every 2nd / 3rd timestep only: the records returned for the run are those of its own grid -
        # nothing is sampled once more when the run is over (whether it ended by completion or at the step limit)
        fq = rng.choice([2, 3])
        rec_f = batching._run_model_for_batch(bm.CompletingModel, {'tc': tc, 'n_before': 2, 'n_after': 2, 'trace_freq': fq}, collectors='trace', **kw)
        ctx.count('batch_driver_runs_with_a_sparse_collector')
        check([r['t'] for r in rec_f] == [t for t in exp_steps if t % fq == 0], f'_run_model_for_batch tc={tc} max_timesteps={limit}: a collector with '
              f'frequency {fq} returned records of steps {[r["t"] for r in rec_f]}, expected {[t for t in exp_steps if t % fq == 0]}', records=rec_f)
        res = batching._run_model_for_search(bm.CompletingModel, bm.score_trace, 1, {'tc': tc, 'n_before': 2, 'n_after': 2}, **kw)
        info = res['records'][0]
        check(all(t <= min(tc, lim - 1) for t, _ in info['log']), 'a system ran past completion / the step limit', info=info)
        ctx.count('search_driver_runs_with_a_collector')
        check(info['trace'] == exp_steps, f'_run_model_for_search tc={tc} max_timesteps={limit}: when the score was taken the collector (a system like any '
              f'other) had run in steps {info["trace"]}, expected {exp_steps} - nothing runs after complete()', info=info)
        if lim > tc:
            check([i for t, i in info['log'] if t == tc] == ['b0', 'b1', 'completer'],
                  'completing step in the search driver ran systems after the completer', info=info)
            check(info['running'] is False, 'model not complete at the end of the search driver')
        else:
            check(info['timestep'] == lim, f'search driver advanced to {info["timestep"]} with limit {lim}', info=info)
    if case['i'] < 1:
        ctx.sample({'kind': 'batch drivers', 'tc': tc, 'limits': 'tc-2, tc, tc+1, tc+4, unlimited'})
    ctx.distinct(('batch', tc))



def case_long_tail(ctx, case):
    """Scale regime: a completed model receives HUNDREDS of later requests, among them very long execute(n) calls, while its systems are
    idle at the timestep where completion left it (frequency > 1, later start, expired end) or while it has no systems at all."""
    rng = ctx.rng('longtail', case['i'])
    core, collectors, Logger = fixtures()
    model = new_model(ctx, rng, core)
    log = []
    style = rng.choice(['idle', 'idle', 'mixed', 'empty'])
    if style != 'empty':
        for j in range(rng.randint(1, 4)):
            kw = dict(priority=rng.randint(-2, 2))
            if style == 'idle' or rng.random() < 0.5:
                kw.update(rng.choice([dict(frequency=rng.randint(7, 90)), dict(start=rng.randint(500, 5000)), dict(end=rng.randint(0, 3))]))
            model.systems.add_system(Logger(f's{j}', model, log, **kw))
    tc = rng.randint(0, 9)
    how = rng.choice(['system', 'outside'])
    if how == 'system':
        model.systems.add_system(Logger('completer', model, log, when=tc, priority=rng.randint(-3, 3)))
        n_req = tc + 1 + rng.choice([0, 0, 70, 150, 400])          # the completing request itself may run far past the completion
        model.execute(n_req)
        twin = core.Model()
        tlog = []
        for sid, s0 in model.systems.systems.items():
            twin.systems.add_system(Logger(sid, twin, tlog, when=s0.when, priority=s0.priority, frequency=s0.frequency, start=s0.start, end=s0.end))
        for _ in range(n_req):
            twin.execute()
        check((model.timestep, log) == (twin.timestep, tlog), f'execute({n_req}) with completion at step {tc} differs from {n_req} single steps',
              clock_multi=model.timestep, clock_single=twin.timestep)
    else:
        for _ in range(tc):
            model.execute()
        model.complete()
    clock, n_log = model.timestep, len(log)
    for k in range(rng.choice([110, 160, 260])):
        req = rng.choice(['execute', 'execute_systems', 'throw', 'throw', 'long', 'long'])
        if req == 'execute':
            model.execute()
        elif req == 'execute_systems':
            model.systems.execute_systems()
        elif req == 'long':
            model.execute(rng.choice([64, 65, 100, 129, 300, 1000]))
            ctx.count('long_requests_after_completion')
        else:
            expect_raises(core.ModelCompleteError, f'execute_systems(throw_error=True), request #{k + 1} after completion',
                          model.systems.execute_systems, True, exact=True)
            ctx.count('model_complete_errors')
        ctx.ev()
        if (model.timestep, model.systems.timestep, len(log)) != (clock, clock, n_log):
            raise CaseViolation(f'request #{k + 1} after completion ({req}) moved the clock or ran a system', clock_before=clock,
                                clock_after=(model.timestep, model.systems.timestep), ran=log[n_log:][:5], style=style)
        check(model.is_running() is False and bool(model) is False, 'model reports running again')
    ctx.count('long_tails')
    ctx.distinct(('longtail', style, how, tc, case['i']))
    if case['i'] < 1:
        ctx.sample({'kind': 'long tail', 'systems': style, 'completed_by': how, 'at': tc})


def case_raising(ctx, case):
    """Systems whose execute() raises (the caller catches and goes on): a fault in an earlier timestep, a fault in the completing timestep
    before the completer's turn, or the completer itself raising right after complete() to unwind the caller.  Completion afterwards is
    as final as ever: later requests change nothing and execute_systems(True) raises ModelCompleteError - nothing else."""
    rng = ctx.rng('raising', case['i'])
    core, collectors, Logger = fixtures()

    from vlib import faults
    raised, done = [], []

    class Faulty(Logger):
        raise_at = ()
        raise_after_complete = False
        exc = faults.Boom

        def execute(self):
            t = self.model.systems.timestep
            super().execute()
            if not self.model.is_running() and not done:
                done.append(len(self.log))           # the model was completed during this very call: nothing may run after it
            if t in self.raise_at or (self.raise_after_complete and t == self.when):
                raised.append((self.id, t))
                raise faults.make(self.exc, self.id, t)      # of any class: ordinary ones incl. NotImplementedError, or an Interrupt

    model = new_model(ctx, rng, core)
    log = []
    n = rng.randint(1, 5)
    tc = rng.randint(0, 5)
    style = rng.choice(['completer_raises', 'earlier_step', 'same_step_before', 'outside_after_fault', 'mixed'])
    systems = [Faulty(f's{j}', model, log, priority=rng.randint(-2, 2)) for j in range(n)]
    for s in systems:
        s.exc = faults.pick(rng)
        ctx.count('failing_system_interrupt' if s.exc is faults.Interrupt else 'failing_system_exception')
        model.systems.add_system(s)
    order = sorted(range(n), key=lambda j: (-systems[j].priority, j))
    cpos = rng.randrange(n)
    completer = systems[order[cpos]]
    if style != 'outside_after_fault':
        completer.when = tc
    if style in ('completer_raises', 'mixed'):
        completer.raise_after_complete = True
    if style in ('earlier_step', 'outside_after_fault', 'mixed') and tc > 0:
        rng.choice(systems).raise_at = tuple(rng.sample(range(tc), rng.randint(1, min(2, tc))))
    if style == 'same_step_before' and cpos > 0:
        systems[order[rng.randrange(cpos)]].raise_at = (tc,)
    faults_ = 0
    guard = 0
    while model.is_running() and guard < 40:
        guard += 1
        if style == 'outside_after_fault' and model.timestep >= tc and (faults_ or tc == 0 or guard > 12):
            model.complete()
            ctx.count('completions_outside')
            break
        n_raised = len(raised)
        try:
            if rng.random() < 0.3:
                model.execute(rng.randint(2, 4))
            else:
                model.execute()
        except BaseException as e:  # noqa - the application's outer loop catches everything, interrupts included
            if len(raised) == n_raised:
                raise
            faults_ += 1
            ctx.count('system_faults_caught')
        if len(raised) > n_raised:
            sid, t = raised[-1]
            if t in systems[int(sid[1:])].raise_at:
                # the faulting step did not finish; make the fault one-off so that the run can go on
                systems[int(sid[1:])].raise_at = tuple(x for x in systems[int(sid[1:])].raise_at if x != t)
    if model.is_running():
        model.complete()
    if faults_:
        ctx.count('completions_after_system_fault')
    if completer.raise_after_complete and not model.is_running():
        ctx.count('completer_raised_after_complete')
    check(model.is_running() is False and bool(model) is False, 'model still reports running after complete()')
    if done and len(log) != done[0]:
        raise CaseViolation('systems ran after a system had completed the model in the middle of a timestep (the completing system raised '
                            f'{completer.exc.__name__} right after complete())' if completer.raise_after_complete else
                            'systems ran after a system had completed the model in the middle of a timestep', ran_afterwards=log[done[0]:][:6], style=style)
    n_log = len(log)
    clock = (model.timestep, model.systems.timestep)
    for s in systems:
        s.raise_at, s.raise_after_complete = (), False
    kinds = tail(ctx, rng, core, Logger, model, log)
    check(len(log) == n_log and (model.timestep, model.systems.timestep) == clock, 'state moved after completion', clock_before=clock,
          clock_after=(model.timestep, model.systems.timestep))
    ctx.distinct(('raising', style, tc, cpos, faults_, tuple(kinds)))
    if case['i'] < 1:
        ctx.sample({'kind': 'systems that raise', 'style': style, 'tc': tc, 'faults_caught': faults_, 'tail': kinds})


def run_case(ctx, case):
    {'raising': case_raising, 'ex': case_ex, 'out': case_outside, 'rand': case_rand, 'batch': case_batch, 'longtail': case_long_tail,
     'spawn': lambda c_, k_: case_spawn(c_, k_)}[case['kind']](ctx, case)


def case_spawn(ctx, case):
    """Systems that are registered from inside a timestep (by a system) - several at once - and one of them completes the model the
    first time it runs, in whichever timestep the scheduler first gives it a turn: nothing runs after that call, the clock stops."""
    rng = ctx.rng('spawn', case['i'])
    core, collectors, Logger = fixtures()
    model = new_model(ctx, rng, core)
    log = []

    class FirstTurnCompleter(Logger):
        def execute(self):
            self.log.append((self.model.systems.timestep, self.id))
            self.model.complete()

    class Spawner(Logger):
        def execute(self):
            t = self.model.systems.timestep
            self.log.append((t, self.id))
            if t == self.when:
                for s_ in self.batch:
                    self.model.systems.add_system(s_)

    n_old = rng.randint(0, 4)
    for j in range(n_old):
        model.systems.add_system(Logger(f's{j}', model, log, priority=rng.randint(-3, 3)))
    ts = rng.randint(0, 3)
    sp = Spawner('spawner', model, log, when=None, priority=rng.randint(-3, 3))
    sp.when = ts
    k = rng.randint(2, 5)
    prios = [rng.randint(-4, 4) for _ in range(k)]
    if rng.random() < 0.5:
        prios = [rng.choice([-5, 5, sp.priority])] * k          # one batch of equal priority, all before / behind / level with the spawner
    who = rng.randrange(k)
    sp.batch = [(FirstTurnCompleter if j == who else Logger)(f'new{j}', model, log, priority=prios[j]) for j in range(k)]
    model.systems.add_system(sp)
    for j in range(rng.randint(0, 2)):
        model.systems.add_system(Logger(f'behind{j}', model, log, priority=rng.randint(-3, 3)))
    steps = 0
    while model.is_running() and steps < ts + 4:
        model.execute()
        steps += 1
    ctx.ev()
    check(not model.is_running(), 'the completing system registered from inside a timestep never got a turn within 3 timesteps of its registration',
          log=log[-10:], registered_at=ts)
    done = [i for i, (t, sid) in enumerate(log) if sid == f'new{who}']
    check(len(done) == 1, 'the completing system ran more than once', log=log[-10:])
    if done[0] != len(log) - 1:
        raise CaseViolation('systems ran after a system that had been registered during a timestep called complete() on its first turn: the remaining '
                            'systems of that timestep must be skipped', ran_afterwards=log[done[0] + 1:], completer=f'new{who}',
                            batch=[(s_.id, s_.priority) for s_ in sp.batch], spawner_priority=sp.priority, registered_at=ts)
    ctx.count('completions_by_a_system_registered_during_a_timestep')
    if log[done[0]][0] == ts:
        ctx.count('completer_ran_in_the_timestep_it_was_registered_in')
    clock = (model.timestep, model.systems.timestep)
    tail(ctx, rng, core, Logger, model, log)
    check((model.timestep, model.systems.timestep) == clock, 'clock moved after completion', before=clock, after=(model.timestep, model.systems.timestep))


def patterns(n):
    out = {tuple(range(n, 0, -1)), tuple([0] * n), tuple(sorted([j // 2 for j in range(n)], reverse=True)), tuple(range(n))}
    return sorted(out)


def run(ctx):
    idx = 0
    for n in range(1, MAXN[ctx.tier] + 1):
        for pr in patterns(n):
            for pos in range(n):
                for tc in (0, 1, 3):
                    for via_n in (False, True):
                        if ctx.mine(idx) and not ctx.full():
                            case = {'kind': 'ex', 'prios': list(pr), 'pos': pos, 'tc': tc, 'via_n': via_n, 'idx': idx}
                            ctx.run_case(case, run_case)
                            if idx in (5, 200):
                                ctx.sample(case)
                        idx += 1
    for i in range(N_RANDOM[ctx.tier]):
        if ctx.mine(i) and not ctx.full():
            ctx.run_case({'kind': 'rand', 'i': i}, run_case)
    for i in range(N_RANDOM[ctx.tier] // 10):
        if ctx.mine(i) and not ctx.full():
            ctx.run_case({'kind': 'out', 'i': i}, run_case)
    for i in range(8 if ctx.tier == 'quick' else 200):
        if ctx.mine(i) and not ctx.full():
            ctx.run_case({'kind': 'batch', 'i': i}, run_case)
    for i in range(N_LONGTAIL[ctx.tier]):
        if ctx.mine(i) and not ctx.full():
            ctx.run_case({'kind': 'longtail', 'i': i}, run_case)
    for i in range(N_RANDOM[ctx.tier] // 5):
        if ctx.mine(i) and not ctx.full():
            ctx.run_case({'kind': 'raising', 'i': i}, run_case)
    for i in range(N_RANDOM[ctx.tier] // 5):
        if ctx.mine(i) and not ctx.full():
            ctx.run_case({'kind': 'spawn', 'i': i}, run_case)


def replay(ctx, case):
    ctx.run_case(case, run_case)
