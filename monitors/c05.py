"""C05 - systems changing the system set mid-timestep never cause skips or reruns.

Scripted systems whose execute() logs and then performs a scripted action at a scripted timestep: clean_up() (self),
remove_system(earlier|later), add_system(new, priority higher|equal|lower).  Small-scope exhaustive over
(n, priority pattern, actor position, action, target) + random cases with two actors in one step.  Oracle computed from
the script alone.
"""
import itertools

from vlib.engine import CaseViolation
from vlib.util import check

PROP = 'C05'
LEVEL = 'exploration'
SHARDS = {'quick': 4, 'thorough': 16}
TIMEOUT = {'quick': 300, 'thorough': 3000}
MAXN = {'quick': 5, 'thorough': 6}
N_RANDOM = {'quick': 2500, 'thorough': 150000}
RULE = ('cases: (a) exhaustive: n in 2..N systems x priority pattern {all distinct, one tie, pairs of ties, all equal} x actor position x '
        'action {clean_up self; remove each earlier system; remove each later system; replace each other system by a different object under the same id (same / top / bottom priority); register a new system with priority above all / '
        'just above the actor / equal / just below / below all} x action timestep {0,1}, one action per case, followed by two quiet '
        'steps that must follow the new set\'s priority order; (b) random: 3-7 systems with 2-3 actors acting in the same timestep. '
        'Oracle per action step: nobody twice; every system registered for the whole step exactly once and mutually in '
        '(descending priority, registration) order; a system removed before its turn zero times; a system registered mid-step 0 or 1 '
        'times. Non-trivial: the system set really changed during a step; distinct by (priorities, actor positions, actions).')
ASSUMPTIONS = ['whether a system registered mid-timestep first runs in that timestep or the next is left open',
               'the oracle is computed from the script: a system removed before its turn does not perform its own scripted action']
FLOORS = {'quick': {'action_steps': 2400, 'act_cleanup': 60, 'act_remove_earlier': 90, 'act_remove_later': 90, 'act_add_higher': 120,
                    'act_add_equal': 60, 'act_add_lower': 120, 'act_replace_earlier': 200, 'act_replace_later': 200, 'quiet_steps': 4000, 'two_actor_steps': 1000,
                    'reach:Core.SystemManager.execute_systems': 5000, 'reach:Core.System.clean_up': 60},
          'thorough': {'action_steps': 100000, 'two_actor_steps': 80000}}
EXHAUSTIVE = {}


def fixtures():
    import ECAgent.Core as core

    class Scripted(core.System):
        def __init__(self, id, model, world, priority=0, uid=None):
            super().__init__(id, model, priority=priority)
            self.world = world
            self.uid = uid or id          # distinguishes two objects registered under the same id

        def execute(self):
            w = self.world
            w.log.append(self.uid)
            act = w.script.get((self.uid, self.model.systems.timestep))
            if act is not None:
                w.perform(self, act)

    return core, Scripted


class World:
    def __init__(self, ctx, prios):
        self.ctx = ctx
        self.core, self.Scripted = fixtures()
        self.model = self.core.Model()
        self.log = []
        self.script = {}
        self.ref = []          # dicts id, prio, seq  (registered now)
        self.seq = 0
        self.changes = []      # (kind, id) performed during the current step, in order
        self.objs = {}
        self.generation = {}
        for j, p in enumerate(prios):
            self.register(f's{j}', p)

    def register(self, sid, prio):
        self.generation[sid] = self.generation.get(sid, -1) + 1
        uid = sid if self.generation[sid] == 0 else f'{sid}#v{self.generation[sid] + 1}'
        o = self.Scripted(sid, self.model, self, priority=prio, uid=uid)
        self.objs[sid] = o
        self.model.systems.add_system(o)
        self.ref.append({'id': uid, 'sid': sid, 'prio': prio, 'seq': self.seq})
        self.seq += 1
        return uid

    def order(self, ref=None):
        return [r['id'] for r in sorted(self.ref if ref is None else ref, key=lambda r: (-r['prio'], r['seq']))]

    def perform(self, actor, act):
        kind = act[0]
        if kind == 'cleanup':
            actor.clean_up()
            self.ref = [r for r in self.ref if r['id'] != actor.uid]
            self.changes.append(('removed', actor.uid, len(self.log)))
        elif kind in ('remove', 'replace'):
            target = act[1]            # a system id; the currently registered object under it is removed
            cur = [r for r in self.ref if r['sid'] == target]
            if cur:
                self.model.systems.remove_system(target)
                self.ref = [r for r in self.ref if r['sid'] != target]
                self.changes.append(('removed', cur[0]['id'], len(self.log)))
                if kind == 'replace':   # a different object under the same id, registered in the same timestep
                    uid = self.register(target, act[2])
                    self.changes.append(('added', uid, len(self.log)))
        elif kind == 'add':
            sid, prio = act[1], act[2]
            if not any(r['sid'] == sid for r in self.ref):
                uid = self.register(sid, prio)
                self.changes.append(('added', uid, len(self.log)))

    def step(self, what):
        start_ref = list(self.ref)
        start_order = self.order(start_ref)
        del self.log[:]
        del self.changes[:]
        t = self.model.systems.timestep
        self.model.systems.execute_systems()
        log = list(self.log)
        self.ctx.ev()
        detail = dict(timestep=t, start_order=start_order, log=log, changes=list(self.changes), doing=what,
                      priorities={r['id']: r['prio'] for r in start_ref})
        # nobody twice
        dup = [i for i in set(log) if log.count(i) > 1]
        if dup:
            raise CaseViolation(f'system(s) {sorted(dup)} ran more than once in one timestep', **detail)
        removed_at = {c[1]: c[2] for c in self.changes if c[0] == 'removed'}
        added = {c[1] for c in self.changes if c[0] == 'added'}
        stayed = [i for i in start_order if i not in removed_at]
        for i in stayed:
            if i not in log:
                raise CaseViolation(f'system {i} stayed registered for the whole timestep but did not run', **detail)
        got_stayed = [i for i in log if i in stayed]
        if got_stayed != stayed:
            raise CaseViolation('systems registered for the whole timestep ran out of priority order', expected=stayed, **detail)
        for i, at in removed_at.items():
            if i in log and log.index(i) >= at:
                raise CaseViolation(f'system {i} ran after it had been removed earlier in the same timestep', **detail)
            if i in start_order and i not in log:
                # removed before its turn: fine (must not run).  It must have been removed by somebody who ran before it.
                pass
        for i in log:
            if i not in start_order and i not in added:
                raise CaseViolation(f'unknown system {i} ran', **detail)
        check(self.model.systems.timestep == t + 1, 'timestep did not advance by exactly one', **detail)
        return bool(self.changes)

    def quiet(self):
        del self.log[:]
        exp = self.order()
        self.model.systems.execute_systems()
        self.ctx.ev()
        self.ctx.count('quiet_steps')
        if self.log != exp:
            raise CaseViolation('quiet timestep after a mid-step change does not follow the new set\'s priority order',
                                expected=exp, observed=list(self.log))


def patterns(n):
    out = {tuple(range(n, 0, -1)), tuple(range(n)), tuple([0] * n)}
    out.add(tuple([2] + [1] * 2 + list(range(0, -(n - 3), -1)))[:n])
    out.add(tuple(sorted([j // 2 for j in range(n)], reverse=True)))
    return sorted(p for p in out if len(p) == n)


def exhaustive_cases(maxn):
    for n in range(2, maxn + 1):
        for pr in patterns(n):
            for ta in (0, 1):
                for actor in range(n):
                    yield {'kind': 'ex', 'prios': list(pr), 't': ta, 'actor': actor, 'action': ['cleanup']}
                    for tgt in range(n):
                        if tgt != actor:
                            yield {'kind': 'ex', 'prios': list(pr), 't': ta, 'actor': actor, 'action': ['remove', tgt]}
                            for rel in ('same', 'top', 'bottom'):
                                yield {'kind': 'ex', 'prios': list(pr), 't': ta, 'actor': actor, 'action': ['replace', tgt, rel]}
                    for rel in ('top', 'above', 'equal', 'below', 'bottom'):
                        yield {'kind': 'ex', 'prios': list(pr), 't': ta, 'actor': actor, 'action': ['add', rel]}


def new_prio(rel, prios, actor_prio):
    return {'top': max(prios) + 1, 'above': actor_prio + 1, 'equal': actor_prio, 'below': actor_prio - 1,
            'bottom': min(prios) - 1}[rel]


def case_ex(ctx, case):
    w = World(ctx, case['prios'])
    order = w.order()
    actor = f's{case["actor"]}'
    a = case['action']
    apos = order.index(actor)
    if a[0] == 'cleanup':
        act = ('cleanup',)
        ctx.count('act_cleanup')
    elif a[0] == 'remove':
        tgt = f's{a[1]}'
        act = ('remove', tgt)
        ctx.count('act_remove_earlier' if order.index(tgt) < apos else 'act_remove_later')
    elif a[0] == 'replace':
        tgt = f's{a[1]}'
        p = {'same': case['prios'][a[1]], 'top': max(case['prios']) + 1, 'bottom': min(case['prios']) - 1}[a[2]]
        act = ('replace', tgt, p)
        ctx.count('act_replace_earlier' if order.index(tgt) < apos else 'act_replace_later')
    else:
        p = new_prio(a[1], case['prios'], case['prios'][case['actor']])
        act = ('add', 'new', p)
        ctx.count({'top': 'act_add_higher', 'above': 'act_add_higher', 'equal': 'act_add_equal', 'below': 'act_add_lower',
                   'bottom': 'act_add_lower'}[a[1]])
    w.script[(actor, case['t'])] = act
    for t in range(case['t']):
        w.quiet()
    changed = w.step(f'{actor} (position {apos} of {order}) does {act}')
    ctx.count('action_steps')
    check(changed, 'harness: scripted action did not happen', order=order, act=act, log=w.log)
    w.quiet()
    w.quiet()
    ctx.distinct(('ex', tuple(case['prios']), case['t'], case['actor'], tuple(a)))
    ctx.state((tuple(case['prios']), apos, a[0]))


def case_rand(ctx, case):
    rng = ctx.rng('rand', case['i'])
    n = rng.randint(3, 7)
    levels = rng.sample(range(-3, 4), rng.randint(1, 3))
    prios = [rng.choice(levels) for _ in range(n)]
    w = World(ctx, prios)
    ta = rng.randint(0, 2)
    actors = rng.sample(range(n), rng.randint(2, min(3, n)))
    desc = []
    for k, ai in enumerate(actors):
        kind = rng.choice(['cleanup', 'remove', 'remove', 'add', 'add', 'replace'])
        if kind == 'cleanup':
            act = ('cleanup',)
        elif kind == 'remove':
            act = ('remove', f's{rng.choice([j for j in range(n) if j != ai])}')
        elif kind == 'replace':
            act = ('replace', f's{rng.choice([j for j in range(n) if j != ai])}', rng.choice(levels) + rng.choice([-1, 0, 1]))
        else:
            act = ('add', f'new{k}', rng.choice(levels) + rng.choice([-1, 0, 1, 5, -5]))
        w.script[(f's{ai}', ta)] = act
        desc.append((f's{ai}', act))
    for t in range(ta):
        w.quiet()
    changed = w.step(f'actors {desc}')
    ctx.count('action_steps')
    if len(w.changes) >= 2:
        ctx.count('two_actor_steps')
    w.quiet()
    w.quiet()
    if changed:
        ctx.distinct(('rand', tuple(prios), tuple(desc)))
    if case['i'] < 3:
        ctx.sample({'kind': 'random two/three-actor step', 'priorities': prios, 'actors': desc, 'action_timestep': ta,
                    'order_after': w.order()})


def run_case(ctx, case):
    (case_ex if case['kind'] == 'ex' else case_rand)(ctx, case)


def run(ctx):
    idx = 0
    for case in exhaustive_cases(MAXN[ctx.tier]):
        if ctx.mine(idx) and not ctx.full():
            ctx.run_case(case, run_case)
            if idx in (7, 300):
                ctx.sample(case)
        idx += 1
    for i in range(N_RANDOM[ctx.tier]):
        if ctx.mine(i) and not ctx.full():
            ctx.run_case({'kind': 'rand', 'i': i}, run_case)


def replay(ctx, case):
    ctx.run_case(case, run_case)
