"""C05 - systems changing the system set mid-timestep never cause skips or reruns.

Scripted systems whose execute() logs and then performs a scripted action at a scripted timestep: clean_up() (self),
remove_system(earlier|later), add_system(new, priority higher|equal|lower).  Small-scope exhaustive over
(n, priority pattern, actor position, action, target) + random cases with two actors in one step.  Oracle computed from
the script alone.
"""
import itertools

from vlib.engine import CaseViolation
from vlib.util import check

PROP = 'C05'
LEVEL = 'exploration'
SHARDS = {'quick': 4, 'thorough': 16}
TIMEOUT = {'quick': 300, 'thorough': 3000}
MAXN = {'quick': 5, 'thorough': 7}
N_BIG = {'quick': 40, 'thorough': 3000}         # scale regime: 40-130 systems, 70-100 timesteps with one change each
N_RANDOM = {'quick': 2500, 'thorough': 500000}
RULE = ('cases: (a) exhaustive: n in 2..N systems x priority pattern {all distinct, one tie, pairs of ties, all equal} x actor position x '
        'action {clean_up self; remove each earlier system; remove each later system; replace each other system by a different object under the same id (same / top / bottom priority); remove and re-register the SAME object (each system incl. the actor itself, same / top / bottom priority); do two of these within one execute() (e.g. unregister itself and register a higher-priority system); register a new system with priority above all / '
        'just above the actor / equal / just below / below all} x action timestep {0,1}, one action per case, followed by two quiet '
        'steps that must follow the new set\'s priority order, each case advanced both by single execute_systems() calls and by ONE '
        'model.execute(n) call covering the whole block; (c) scale regime: 40-130 systems over 70-100 timesteps with one change per timestep (long removal-only stretches, registrations into long queues); (b) random: 3-7 systems with 2-3 actors acting in the same timestep. '
        'Oracle per action step: nobody twice; every system registered for the whole step exactly once and mutually in '
        '(descending priority, registration) order; a system removed before its turn zero times; a system registered mid-step 0 or 1 '
        'times. Non-trivial: the system set really changed during a step; distinct by (priorities, actor positions, actions).')
ASSUMPTIONS = ['whether a system registered mid-timestep first runs in that timestep or the next is left open',
               'the oracle is computed from the script: a system removed before its turn does not perform its own scripted action']
FLOORS = {'quick': {'worlds_with_bystanders_whose_windows_close_early': 2587, 'cases_in_mode_optimised': 857, 'models_that_are_deep_copies': 1109, 'timesteps_cut_short_by_a_failing_system': 1353, 'histories_with_failing_systems': 833, 'other_model_stepped_inside_our_timestep': 2713, 'str_subclass_ids': 11455, 'falsy_system_objects': 9414, 'action_steps': 2400, 'act_cleanup': 60, 'act_remove_earlier': 90, 'act_remove_later': 90, 'act_add_higher': 120,
                    'act_add_equal': 60, 'act_add_lower': 120, 'act_replace_earlier': 200, 'act_replace_later': 200, 'act_readd_self': 200,
                    'act_readd_earlier': 200, 'act_compound': 500, 'act_readd_later': 200, 'blocks_multi': 2000, 'blocks_single': 2000, 'removed_via_clean_up': 300, 'big_histories': 20, 'big_history_changes': 1000, 'quiet_steps': 4000, 'two_actor_steps': 1000,
                    'reach:Core.SystemManager.execute_systems': 5000, 'reach:Core.System.clean_up': 60},
          'thorough': {'action_steps': 100000, 'two_actor_steps': 80000}}
EXHAUSTIVE = {}


def fixtures():
    import ECAgent.Core as core

    class Scripted(core.System):
        def __init__(self, id, model, world, priority=0, uid=None):
            super().__init__(id, model, priority=priority)
            self.world = world
            self.uid = uid or id          # distinguishes two objects registered under the same id

        def execute(self):
            w = self.world
            t = self.model.systems.timestep
            w.log.append((t, self.uid))
            act = w.script.pop((self.uid, t), None)        # every scripted action happens once
            if act is not None:
                w.perform(self, act, t)
            fault = w.faults.pop((self.uid, t), None)       # a scripted one-shot failure (after the system did what it does)
            if fault is not None:
                from vlib import faults
                raise faults.make(fault, f'{self.uid} fails at {t}')

    import ECAgent.Collectors as collectors

    class ScriptedCollector(collectors.Collector):
        """The same scripted behaviour on a Collector (records stay empty): collectors are systems too."""

        def __init__(self, id, model, world, priority=0, uid=None):
            super().__init__(id, model, priority=priority)
            self.world = world
            self.uid = uid or id

        def collect(self):
            Scripted.execute(self)

    class Idle(core.System):
        def execute(self):
            pass

    Scripted.Idle = Idle
    Scripted.AsCollector = ScriptedCollector
    # falsy-but-valid user systems (an empty job queue has len 0; a switch that is off is False) - they are systems like any other
    Scripted.variants = [Scripted, type('ScriptedSized', (Scripted,), {'__len__': lambda self: 0}),
                         type('ScriptedOff', (Scripted,), {'__bool__': lambda self: False})]
    ScriptedCollector.variants = [ScriptedCollector, type('ScriptedCollectorSized', (ScriptedCollector,), {'__len__': lambda self: len(self.records)}),
                                  type('ScriptedCollectorOff', (ScriptedCollector,), {'__bool__': lambda self: False})]
    return core, Scripted


def hash_of(text):
    return sum(ord(c) for c in text)


class World:
    def __init__(self, ctx, prios, flavour=0):
        self.ctx = ctx
        self.flavour = flavour            # which of the systems are Collector subclasses
        self.core, self.Scripted = fixtures()
        from vlib import reps
        self.reps = reps
        self.model = self.core.Model(logger=reps.quiet_logger()) if flavour % 4 == 3 else self.core.Model()
        # an unrelated second model (a sub-model the acting systems advance from inside OUR timestep, before they change our system set)
        self.other = self.core.Model()
        self.other.systems.add_system(self.Scripted.Idle('s0', self.other))
        self.log = []          # (timestep, uid)
        # what the LIBRARY is told the systems are called: for some worlds identifiers that look like shell patterns / templates, and
        # one that is not unicode-normalised (the harness keeps its own names s0, s1, ... for the log and the scripts)
        self.lib_ids = {'s1': 's*', 's2': 's?', 's3': 's[0-9]', 's0': 'se\u0301'} if flavour % 3 == 2 else {}
        self.script = {}
        self.faults = {}
        self.ref = []          # dicts id(uid), sid, prio, seq  (registered now)
        self.seq = 0
        self.changes = []      # dicts kind, uid, t, pos (number of executions logged in that timestep before the change), entry
        self.objs = {}         # uid -> object
        self.generation = {}
        for j, p in enumerate(prios):
            self.register(f's{j}', p)
        if flavour % 2 == 1:
            # silent bystanders with bounded windows (warm-up jobs, a system that retires after a few timesteps): they do nothing and are
            # not part of the log, but their windows close in the very timesteps in which the scripted systems change the system set
            for k_ in range(6):
                self.model.systems.add_system(self.Scripted.Idle(f'bystander{k_}', self.model, priority=-60 if k_ % 3 else 60, start=0, end=k_,
                                                                 frequency=1 + (k_ == 5)))
            ctx.count('worlds_with_bystanders_whose_windows_close_early')
        if flavour % 5 == 2:
            # the model under observation is a deep copy of the one that was set up (a duplicated / restored experiment)
            import copy as _copy
            self.model = _copy.deepcopy(self.model)
            self.objs = {o.uid: o for o in self.model.systems.systems.values() if hasattr(o, 'uid')}
            self.ctx.count('models_that_are_deep_copies')

    def __deepcopy__(self, memo):
        return self            # (the harness object the scripted systems report to is not part of the model)

    def _entry(self, uid, sid, prio):
        e = {'id': uid, 'sid': sid, 'prio': prio, 'seq': self.seq}
        self.seq += 1
        self.ref.append(e)
        return e

    def register(self, sid, prio):
        self.generation[sid] = self.generation.get(sid, -1) + 1
        uid = sid if self.generation[sid] == 0 else f'{sid}#v{self.generation[sid] + 1}'
        cls = self.Scripted.AsCollector if (hash_of(uid) + self.flavour) % 3 == 0 else self.Scripted
        cls = cls.variants[[0, 1, 0, 2, 0][(hash_of(uid) * 7 + self.flavour) % 5]]
        if cls is not cls.variants[0]:
            self.ctx.count('falsy_system_objects')
        # the identifier may be an instance of a str subclass (equal to and hashing like the plain string)
        idrep = [str, self.reps.Label, str, self.reps.ShoutLabel][(hash_of(sid) + 3 * self.flavour) % 4]
        if idrep is not str:
            self.ctx.count('str_subclass_ids')
        o = cls(idrep(self.lib_ids.get(sid, sid)), self.model, self, priority=prio, uid=uid)
        if sid in self.lib_ids:
            self.ctx.count('pattern_like_or_unnormalised_ids')
        self.objs[uid] = o
        self.model.systems.add_system(o)
        return self._entry(uid, sid, prio)

    def order(self, ref=None):
        return [r['id'] for r in sorted(self.ref if ref is None else ref, key=lambda r: (-r['prio'], r['seq']))]

    def _pos(self, t):
        return sum(1 for (tt, _) in self.log if tt == t)

    def perform(self, actor, act, t):
        kind = act[0]
        if self.flavour % 3 == 1 and kind != 'compound':
            self.other.execute()            # two models alive at once: stepping the other one is none of our scheduler's business
            self.ctx.count('other_model_stepped_inside_our_timestep')
        if kind == 'compound':            # several changes made by one system within the same execute()
            for sub in act[1:]:
                self.perform(actor, sub, t)
            return
        rec = lambda k, uid, entry=None: self.changes.append({'kind': k, 'uid': uid, 't': t, 'pos': self._pos(t), 'entry': entry})  # noqa
        if kind == 'cleanup':
            if not any(r['id'] == actor.uid for r in self.ref):
                return                     # already unregistered earlier in this compound action
            actor.clean_up()
            self.ref = [r for r in self.ref if r['id'] != actor.uid]
            rec('removed', actor.uid)
        elif kind in ('remove', 'replace', 'readd'):
            target = act[1]            # a system id; the currently registered object under it is removed
            cur = [r for r in self.ref if r['sid'] == target]
            if cur:
                if kind == 'remove' and self.flavour % 2:
                    self.objs[cur[0]['id']].clean_up()          # a supervisor asks the system to remove itself
                    self.ctx.count('removed_via_clean_up')
                else:
                    self.model.systems.remove_system(self.lib_ids.get(target, target))
                self.ref = [r for r in self.ref if r['sid'] != target]
                rec('removed', cur[0]['id'])
                if kind == 'replace':   # a DIFFERENT object under the same id, registered in the same timestep
                    e = self.register(target, act[2])
                    rec('added', e['id'], e)
                elif kind == 'readd':   # the SAME object again, with a changed priority (the usual way to change a priority)
                    o = self.objs[cur[0]['id']]
                    o.priority = act[2]
                    self.model.systems.add_system(o)
                    rec('added', o.uid, self._entry(o.uid, target, act[2]))
        elif kind == 'add':
            sid, prio = act[1], act[2]
            if not any(r['sid'] == sid for r in self.ref):
                e = self.register(sid, prio)
                rec('added', e['id'], e)

    def run_block(self, n, mode, what):
        """Advances n timesteps (n single execute_systems() calls, or ONE model.execute(n)) and then verifies every timestep of
        the block against the reference replayed from the recorded changes."""
        t0 = self.model.systems.timestep
        ref_t = list(self.ref)
        mark_c = len(self.changes)
        if mode == 'multi':
            self.model.execute(n)
        else:
            for _ in range(n):
                self.model.systems.execute_systems()
        check(self.model.systems.timestep == t0 + n, f'{n} timesteps requested, clock advanced by {self.model.systems.timestep - t0}', doing=what)
        return self.verify_range(t0, n, ref_t, mark_c, what, mode)[0]

    def verify_range(self, t0, n, ref_t, mark_c, what, mode):
        changed = False
        for t in range(t0, t0 + n):
            step_log = [u for (tt, u) in self.log if tt == t]
            step_changes = [c for c in self.changes[mark_c:] if c['t'] == t]
            self.ctx.ev()
            if step_changes:
                self.verify_action_step(t, step_log, ref_t, step_changes, what, mode)
                changed = True
                for c in step_changes:
                    if c['kind'] == 'removed':
                        ref_t = [r for r in ref_t if r['id'] != c['uid']]
                    else:
                        ref_t = ref_t + [c['entry']]
            else:
                exp = self.order(ref_t)
                self.ctx.count('quiet_steps')
                if step_log != exp:
                    raise CaseViolation('a timestep without changes does not run exactly the registered systems in priority order '
                                        '(after an earlier mid-timestep change)', timestep=t, expected=exp, observed=step_log, doing=what,
                                        advanced_by=mode)
        return changed, ref_t

    def run_with_failures(self, until, rng, what):
        """Advances to timestep `until` with single and multi-step requests, some of which are cut short by a system that raises; the
        caller catches the error and goes on.  Complete timesteps are verified as always; of a cut-short timestep only 'nobody twice' is
        demanded, and its log is forgotten (the registry changes made in it stay, of course)."""
        from vlib import faults
        guard = 0
        while self.model.systems.timestep < until and guard < 60:
            guard += 1
            t0 = self.model.systems.timestep
            ref_t, mark_c, mark_l = list(self.ref), len(self.changes), len(self.log)
            n = min(rng.choice([1, 1, 2, 3]), until - t0)
            if n == 1:
                _, err = faults.attempt(self.model.systems.execute_systems)
                mode = 'single'
            else:
                _, err = faults.attempt(self.model.execute, n)
                mode = 'multi'
            self.ctx.ev()
            if err is None:
                check(self.model.systems.timestep == t0 + n, f'{n} timesteps requested, clock advanced by {self.model.systems.timestep - t0}', doing=what)
                self.verify_range(t0, n, ref_t, mark_c, what, mode)
                continue
            if not isinstance(err, (faults.Boom, faults.Interrupt)) and not any(isinstance(err, c) for c in faults.ORDINARY):
                raise CaseViolation(f'unexpected {type(err).__name__}: {err}', doing=what)
            new = self.log[mark_l:]
            tf = new[-1][0] if new else t0            # the timestep that was cut short = that of the last system that ran
            self.ctx.count('timesteps_cut_short_by_a_failing_system')
            self.ctx.count('failing_system_interrupt' if isinstance(err, faults.Interrupt) else 'failing_system_exception')
            if tf > t0:
                self.verify_range(t0, tf - t0, ref_t, mark_c, what, mode)
            part = [u for (tt, u) in new if tt == tf]
            dup = [u for u in set(part) if part.count(u) > 1]
            if dup:
                raise CaseViolation(f'system(s) {sorted(dup)} ran more than once in a timestep that was cut short by a failing system', log=part, doing=what)
            self.log[:] = [e for e in self.log if e[0] != tf]
            self.changes[:] = [c for c in self.changes if c['t'] != tf]

    def verify_action_step(self, t, log, start_ref, changes, what, mode):
        start_order = self.order(start_ref)
        detail = dict(timestep=t, start_order=start_order, log=log, changes=[(c['kind'], c['uid'], c['pos']) for c in changes], doing=what,
                      priorities={r['id']: r['prio'] for r in start_ref}, advanced_by=mode)
        dup = [i for i in set(log) if log.count(i) > 1]
        if dup:
            raise CaseViolation(f'system(s) {sorted(dup)} ran more than once in one timestep', **detail)
        removed_at = {}
        for c in changes:
            if c['kind'] == 'removed':
                removed_at.setdefault(c['uid'], c['pos'])
        added = {c['uid'] for c in changes if c['kind'] == 'added'}
        stayed = [i for i in start_order if i not in removed_at]
        for i in stayed:
            if i not in log:
                raise CaseViolation(f'system {i} stayed registered for the whole timestep but did not run', **detail)
        got_stayed = [i for i in log if i in stayed]
        if got_stayed != stayed:
            raise CaseViolation('systems registered for the whole timestep ran out of priority order', expected=stayed, **detail)
        for i, at in removed_at.items():
            if i in added:
                continue       # the same object registered again in this step: newly registered (0 or 1 more run - 'nobody twice' above)
            if i in log and log.index(i) >= at:
                raise CaseViolation(f'system {i} ran after it had been removed earlier in the same timestep', **detail)
        for i in log:
            if i not in start_order and i not in added:
                raise CaseViolation(f'unknown system {i} ran', **detail)


def patterns(n):
    out = {tuple(range(n, 0, -1)), tuple(range(n)), tuple([0] * n)}
    out.add(tuple([2] + [1] * 2 + list(range(0, -(n - 3), -1)))[:n])
    out.add(tuple(sorted([j // 2 for j in range(n)], reverse=True)))
    return sorted(p for p in out if len(p) == n)


def exhaustive_cases(maxn):
    for n in range(2, maxn + 1):
        for pr in patterns(n):
            for ta in (0, 1):
                for actor in range(n):
                    yield {'kind': 'ex', 'prios': list(pr), 't': ta, 'actor': actor, 'action': ['cleanup']}
                    for tgt in range(n):
                        if tgt != actor:
                            yield {'kind': 'ex', 'prios': list(pr), 't': ta, 'actor': actor, 'action': ['remove', tgt]}
                            for rel in ('same', 'top', 'bottom'):
                                yield {'kind': 'ex', 'prios': list(pr), 't': ta, 'actor': actor, 'action': ['replace', tgt, rel]}
                    for tgt in range(n):        # the same object removed and registered again (incl. the actor itself)
                        for rel in ('same', 'top', 'bottom'):
                            yield {'kind': 'ex', 'prios': list(pr), 't': ta, 'actor': actor, 'action': ['readd', tgt, rel]}
                    for rel in ('top', 'above', 'equal', 'below', 'bottom'):
                        yield {'kind': 'ex', 'prios': list(pr), 't': ta, 'actor': actor, 'action': ['add', rel]}
                        # the actor both unregisters itself and registers a new system, in either order, within one execute()
                        yield {'kind': 'ex', 'prios': list(pr), 't': ta, 'actor': actor, 'action': ['cleanup+add', rel]}
                        yield {'kind': 'ex', 'prios': list(pr), 't': ta, 'actor': actor, 'action': ['add+cleanup', rel]}


def new_prio(rel, prios, actor_prio):
    return {'top': max(prios) + 1, 'above': actor_prio + 1, 'equal': actor_prio, 'below': actor_prio - 1,
            'bottom': min(prios) - 1}[rel]


def case_ex(ctx, case):
    for mode in ('single', 'multi'):
        w = World(ctx, case['prios'], flavour=case['actor'] + (1 if mode == 'multi' else 0))
        order = w.order()
        actor = f's{case["actor"]}'
        a = case['action']
        apos = order.index(actor)
        if a[0] == 'cleanup':
            act = ('cleanup',)
            key = 'act_cleanup'
        elif a[0] == 'remove':
            tgt = f's{a[1]}'
            act = ('remove', tgt)
            key = 'act_remove_earlier' if order.index(tgt) < apos else 'act_remove_later'
        elif a[0] in ('replace', 'readd'):
            tgt = f's{a[1]}'
            p = {'same': case['prios'][a[1]], 'top': max(case['prios']) + 1, 'bottom': min(case['prios']) - 1}[a[2]]
            act = (a[0], tgt, p)
            key = f'act_{a[0]}_' + ('self' if tgt == actor else ('earlier' if order.index(tgt) < apos else 'later'))
        elif a[0] in ('cleanup+add', 'add+cleanup'):
            p = new_prio(a[1], case['prios'], case['prios'][case['actor']])
            parts = [('cleanup',), ('add', 'new', p)]
            act = ('compound',) + tuple(parts if a[0] == 'cleanup+add' else parts[::-1])
            key = 'act_compound'
        else:
            p = new_prio(a[1], case['prios'], case['prios'][case['actor']])
            act = ('add', 'new', p)
            key = {'top': 'act_add_higher', 'above': 'act_add_higher', 'equal': 'act_add_equal', 'below': 'act_add_lower',
                   'bottom': 'act_add_lower'}[a[1]]
        ctx.count(key)
        w.script[(actor, case['t'])] = act
        changed = w.run_block(case['t'] + 3, mode, f'{actor} (position {apos} of {order}) does {act} at t={case["t"]}')
        ctx.count('action_steps')
        ctx.count('blocks_' + mode)
        check(changed, 'harness: scripted action did not happen', order=order, act=act)
    ctx.distinct(('ex', tuple(case['prios']), case['t'], case['actor'], tuple(a)))
    ctx.state((tuple(case['prios']), apos, a[0]))


def case_rand(ctx, case):
    rng = ctx.rng('rand', case['i'])
    n = rng.randint(3, 7)
    levels = rng.sample(range(-3, 4), rng.randint(1, 3))
    prios = [rng.choice(levels) for _ in range(n)]
    w = World(ctx, prios, flavour=rng.randint(0, 5))
    ta = rng.randint(0, 2)
    actors = rng.sample(range(n), rng.randint(2, min(3, n)))
    desc = []
    for k, ai in enumerate(actors):
        kind = rng.choice(['cleanup', 'remove', 'remove', 'add', 'add', 'replace', 'readd', 'readd'])
        if kind == 'cleanup':
            act = ('cleanup',)
        elif kind == 'remove':
            act = ('remove', f's{rng.choice([j for j in range(n) if j != ai])}')
        elif kind == 'replace':
            act = ('replace', f's{rng.choice([j for j in range(n) if j != ai])}', rng.choice(levels) + rng.choice([-1, 0, 1]))
        elif kind == 'readd':
            act = ('readd', f's{rng.randrange(n)}', rng.choice(levels) + rng.choice([-2, -1, 0, 1]))
        else:
            act = ('add', f'new{k}', rng.choice(levels) + rng.choice([-1, 0, 1, 5, -5]))
        if rng.random() < 0.3:
            extra = rng.choice([('cleanup',), ('add', f'extra{k}', rng.choice(levels) + rng.choice([-1, 0, 1, 5])),
                                ('remove', f's{rng.choice([j for j in range(n) if j != ai])}')])
            act = ('compound', act, extra) if rng.random() < 0.5 else ('compound', extra, act)
        w.script[(f's{ai}', ta + (rng.choice([0, 0, 1]) if k else 0))] = act
        desc.append((f's{ai}', act))
    mode = rng.choice(['single', 'multi'])
    changed = w.run_block(ta + 4, mode, f'actors {desc} from t={ta}')
    ctx.count('action_steps')
    ctx.count('blocks_' + mode)
    if len(w.changes) >= 2:
        ctx.count('two_actor_steps')
    if changed:
        ctx.distinct(('rand', tuple(prios), tuple(desc), mode))
    if case['i'] < 3:
        ctx.sample({'kind': 'random two/three-actor block', 'priorities': prios, 'actors': desc, 'action_timestep': ta, 'advanced_by': mode,
                    'order_after': w.order()})



def case_faulty(ctx, case):
    """Histories in which systems change the system set mid-timestep AND systems raise (ordinary exceptions, KeyboardInterrupt-likes): the
    caller catches and carries on with the same model; every complete timestep afterwards obeys the property as if nothing had happened."""
    from vlib import faults
    rng = ctx.rng('faulty', case['i'])
    n = rng.randint(3, 6)
    levels = rng.sample(range(-3, 4), rng.randint(1, 3))
    prios = [rng.choice(levels) for _ in range(n)]
    w = World(ctx, prios, flavour=rng.randint(0, 5))
    horizon = rng.randint(5, 9)
    desc = []
    for k in range(rng.randint(2, 5)):
        ai = rng.randrange(n)
        kind = rng.choice(['cleanup', 'remove', 'add', 'add', 'replace', 'readd'])
        others = [j for j in range(n) if j != ai]
        if kind == 'cleanup':
            act = ('cleanup',)
        elif kind == 'remove':
            act = ('remove', f's{rng.choice(others)}')
        elif kind == 'replace':
            act = ('replace', f's{rng.choice(others)}', rng.choice(levels) + rng.choice([-1, 0, 1]))
        elif kind == 'readd':
            act = ('readd', f's{rng.randrange(n)}', rng.choice(levels) + rng.choice([-2, -1, 0, 1]))
        else:
            act = ('add', f'new{k}', rng.choice(levels) + rng.choice([-1, 0, 1, 5, -5]))
        key = (f's{ai}', rng.randrange(horizon))
        if key not in w.script:
            w.script[key] = act
            desc.append((key, act))
    for k in range(rng.randint(1, 3)):
        key = (f's{rng.randrange(n)}', rng.randrange(horizon))
        w.faults[key] = faults.pick(rng)
        desc.append((key, 'raises ' + w.faults[key].__name__))
    w.run_with_failures(horizon + 3, rng, f'changes and failures {desc}')
    ctx.count('histories_with_failing_systems')
    ctx.distinct(('faulty', tuple(prios), tuple(str(d) for d in desc)))
    if case['i'] < 1:
        ctx.sample({'kind': 'changes and failures', 'priorities': prios, 'script': [str(d) for d in desc]})


def case_big(ctx, case):
    """Scale regime: 40-130 systems, 70-100 timesteps, one scripted change per timestep (removal-heavy stretches without any registration,
    registrations of higher-priority systems into long queues, re-registrations), advanced in blocks of single steps or execute(n)."""
    rng = ctx.rng('big', case['i'])
    n = rng.choice([40, 66, 100, 130])
    levels = rng.sample(range(-4, 5), rng.randint(2, 5))
    prios = [rng.choice(levels) for _ in range(n)]
    w = World(ctx, prios, flavour=rng.randint(0, 5))
    T = rng.randint(70, 100)
    mode_mix = rng.choice(['removals', 'pure-removals', 'mixed'])
    if mode_mix == 'pure-removals':
        T = min(100, n - 8)
    alive = w.order()                  # current execution order; without registrations the relative order never changes
    new_id = 0
    for t in range(T):
        if mode_mix == 'pure-removals':
            # one removal per timestep and nothing else: an earlier system removes a later one that has not had its turn yet
            i, j = sorted(rng.sample(range(len(alive)), 2))
            w.script[(alive[i], t)] = ('remove', alive[j])
            del alive[j]
            continue
        if rng.random() < 0.15 or len(alive) < 6:
            continue
        actor = rng.choice(alive)
        others = [a for a in alive if a != actor]
        kind = 'remove' if mode_mix == 'removals' and t < 70 else rng.choice(['remove', 'remove', 'cleanup', 'add', 'add', 'readd', 'replace'])
        if kind == 'remove':
            tgt = rng.choice(others)
            act = ('remove', tgt)
            alive.remove(tgt)
        elif kind == 'cleanup':
            act = ('cleanup',)
            alive.remove(actor)
        elif kind == 'add':
            new_id += 1
            act = ('add', f'n{new_id}', rng.choice(levels) + rng.choice([-1, 0, 1, 1, 6]))
        elif kind == 'readd':
            act = ('readd', rng.choice(alive), rng.choice(levels) + rng.choice([-1, 0, 1]))
        else:
            act = ('replace', rng.choice(others), rng.choice(levels))
        w.script[(actor, t)] = act
    t = 0
    while t < T + 2:
        k = min(rng.choice([1, 1, 3, 10, 40]), T + 2 - t)
        w.run_block(k, rng.choice(['single', 'multi']), f'big history: {n} systems, block of {k} timesteps from t={t}')
        t += k
    ctx.count('big_histories')
    ctx.count('big_history_changes', len(w.changes))
    ctx.count('action_steps', len({c['t'] for c in w.changes}))
    ctx.distinct(('big', n, T, mode_mix, case['i']))
    if case['i'] < 1:
        ctx.sample({'kind': 'big history', 'systems': n, 'timesteps': T, 'style': mode_mix, 'changes': len(w.changes)})


def run_case(ctx, case):
    {'ex': case_ex, 'rand': case_rand, 'big': case_big, 'faulty': case_faulty}[case['kind']](ctx, case)


def run(ctx):
    idx = 0
    for case in exhaustive_cases(MAXN[ctx.tier]):
        if ctx.mine(idx) and not ctx.full():
            ctx.run_case(case, run_case)
            if idx in (7, 300):
                ctx.sample(case)
        idx += 1
    for i in range(N_RANDOM[ctx.tier]):
        if ctx.mine(i) and not ctx.full():
            ctx.run_case({'kind': 'rand', 'i': i}, run_case)
    for i in range(N_BIG[ctx.tier]):
        if ctx.mine(i) and not ctx.full():
            ctx.run_case({'kind': 'big', 'i': i}, run_case)
    for i in range(N_RANDOM[ctx.tier]):
        if ctx.mine(i) and not ctx.full():
            ctx.run_case({'kind': 'faulty', 'i': i}, run_case)


def replay(ctx, case):
    ctx.run_case(case, run_case)
