"""C04 - the environment holds exactly the live agents; failed operations leave no trace (fault enumeration).

Ordered-dict reference model vs len / iteration / get_agent / get_agents after every op; every documented error path is
injected at every state the history reaches, each bracketed by a full-state snapshot (residents, every agent object of the
universe with its components, positions, tag, every component listing).
"""
from vlib.engine import CaseViolation
from vlib.snap import snapshot, diff
from vlib.util import check, same_objects

PROP = 'C04'
LEVEL = 'fault_enumeration'
SHARDS = {'quick': 8, 'thorough': 16}
TIMEOUT = {'quick': 300, 'thorough': 3000}
N_HIST = {'quick': 480, 'thorough': 30000}
N_BIG = {'quick': 8, 'thorough': 400}           # scale regime: 100-300 ids, ~4 operations per id
RULE = ('cases: seeded histories of 15-30 add/remove/lookup ops over a universe of 6-10 agent objects sharing 4-6 ids (distinct '
        'objects with one id) carrying component subsets, in a plain Environment, a continuous SpaceWorld and grid worlds '
        '(DiscreteWorld/LineWorld/GridWorld) with extents mixing 0 and >=1 (continuous also fractional extents below 1); after EVERY op all accessors are compared with the '
        'ordered-dict model and every error path is injected (duplicate add with the same object / an impostor, unknown-id '
        'remove and strict lookup, non-strict lookup, out-of-bounds placement on each positive axis and side, out-of-bounds with '
        'a taken id), each bracketed by a full-state snapshot; plus a scale regime (100-300 ids, hundreds of add/remove/re-add operations, accessors compared after each). Non-trivial: history with a removal from the middle, a re-add '
        'after removal under a colliding id, and >=1 probe of every error-path kind applicable to the world; distinct by '
        '(world kind, extents, op trace).')
ASSUMPTIONS = ['agents\' component sets are not modified while resident (C03\'s dimension)',
               'an out-of-bounds placement may raise any Exception subclass other than DuplicateAgentError (the documented error is a bare Exception)',
               'snapshots read documented public attributes']
FLOORS = {'quick': {'operations_after_which_nobody_looked': 1140, 'histories_continued_after_the_model_completed': 74, 'pattern_like_or_unnormalised_ids': 450, 'simultaneous_iterations': 725, 'cases_in_mode_warnings': 40, 'cases_in_mode_optimised': 40, 'histories_continued_on_a_deep_copy': 127, 'joins_failing_half_way': 160, 'agents_built_for_another_model': 251, 'listings_edited_by_the_caller': 1108, 'falsy_agent_objects': 319, 'deprecated_alias_calls': 308, 'probe_dup_same': 3000, 'probe_dup_impostor': 3000, 'probe_remove_unknown': 3000, 'probe_strict_unknown': 3000,
                    'probe_oob': 5000, 'probe_oob_taken_id': 500, 'middle_removals': 384, 'big_environments': 4, 'big_ops': 1000, 'edge_placements': 200,
                    'accessor_comparisons': 5000, 'rejected_agent_without_position': 5000, 'contract:Environment.registry': 50000, 'contract:SpaceWorld.containment': 50000,
                    'reach:Core.Environment.add_agent': 5000, 'reach:Environments.SpaceWorld.add_agent': 5000},
          'thorough': {'probe_oob': 300000, 'probe_dup_impostor': 150000, 'accessor_comparisons': 365491}}
EXHAUSTIVE = {}

_K = None


def _wrap_kw(wrap):
    """wrap_env=False is the documented default: half of the non-wrapping worlds are built without naming it."""
    _wrap_kw.n += 1
    return {} if (wrap is False and _wrap_kw.n % 2) else {'wrap_env': wrap}


_wrap_kw.n = 0


def fixtures():
    global _K
    import ECAgent.Core as core
    import ECAgent.Environments as envs
    if _K is None:
        _K = [type(f'Q{i}', (core.Component,), {'__slots__': ()}) for i in range(3)]
        # a container-like component (an empty inventory has len 0) and a switch that is off: falsy objects are components too
        _K[1] = type('Q1Inventory', (core.Component,), {'__slots__': (), '__len__': lambda self: 0})
        _K[2] = type('Q2Switch', (core.Component,), {'__slots__': (), '__bool__': lambda self: False})
        _K[0] = type('Q0derived', (_K[1],), {'__slots__': ()})     # a user component class derived from another one (attached first)
        from vlib import contracts
        contracts.attach_environment(core)
        contracts.attach_spaceworld(envs)
    return core, envs, _K


def make_world(core, envs, rng, model):
    kind = rng.choice(['plain', 'space', 'space', 'discrete', 'line', 'grid'])
    if kind == 'plain':
        return kind, model.environment, None
    wrap = rng.random() < 0.3
    if kind == 'space':
        ext = [rng.choice([1.0, 2.5, 7.125, 4.0, 0.5]), rng.choice([0.0, 0.0, 3.0, 6.5, 0.25]), rng.choice([0.0, 0.0, 2.0, 0.75])]
        env = envs.SpaceWorld(model, *ext, **_wrap_kw(wrap))
    elif kind == 'discrete':
        ext = [rng.choice([0, 1, 3, 5]), rng.choice([0, 2, 4]), rng.choice([0, 1, 3])]
        env = envs.DiscreteWorld(model, *ext, **_wrap_kw(wrap))
    elif kind == 'line':
        ext = [rng.choice([1, 2, 6]), 0, 0]
        env = envs.LineWorld(model, ext[0], **_wrap_kw(wrap))
    else:
        ext = [rng.choice([1, 3, 5]), rng.choice([1, 2, 4]), 0]
        env = envs.GridWorld(model, ext[0], ext[1], **_wrap_kw(wrap))
    model.environment = env
    return kind, env, ext


def case_history(ctx, case):
    rng = ctx.rng('hist', case['i'])
    core, envs, K = fixtures()
    P = envs.PositionComponent
    model = core.Model()
    kind, env, ext = make_world(core, envs, rng, model)
    spatial = kind != 'plain'
    grid = kind in ('discrete', 'line', 'grid')
    off = 1 if grid else 0
    step = 1 if grid else 0.125
    from vlib import reps
    import warnings
    ids = [reps.as_str(rng, n_, allow_enum=False) for n_ in reps.odd_ids(rng, 'id', rng.randint(4, 6), 0.35, ctx)]     # str-subclass instances, pattern-like / unnormalised ids
    # user agent classes: plain, and one whose truth value is its own business ('alive' flag: False) - still an agent like any other
    Mortal = type('Mortal', (core.Agent,), {'__bool__': lambda self: False})
    universe = []
    other_model = core.Model()          # a second live model: some agents were built for it (an agent pool shared between models)
    for j in range(rng.randint(6, 10)):
        A = Mortal if rng.random() < 0.25 else core.Agent
        if A is Mortal:
            ctx.count('falsy_agent_objects')
        home = model
        if rng.random() < 0.2:
            home = other_model
            ctx.count('agents_built_for_another_model')
        a = A(rng.choice(ids), home, tag=reps.as_int(rng, rng.choice([None, 0, 1, 5])))
        for T in K:
            if rng.random() < 0.5:
                a.add_component(T(a, home))
        universe.append(a)
    ref = {}          # id -> agent, insertion ordered
    trace = []
    flags = set()
    left = {}         # id -> the object that last left under this id

    def snap():
        return snapshot(model, universe, K, P if spatial else None)

    def rnd_pos(edge=False):
        if not spatial:
            return ()
        pos = []
        for e in ext:
            if e and e > 0:
                hi = e - off
                if edge or rng.random() < 0.3:
                    v = rng.choice([0, hi])
                elif grid:
                    v = rng.randint(0, hi)
                else:
                    v = rng.randint(0, int(hi * 8)) / 8
                pos.append(v)
            else:
                pos.append(0)
        return tuple(pos)

    def junk_on_flat_axes(pos):
        """Coordinates on zero-extent axes are not constrained by the property: the world may accept them or refuse them, but a refusal
        must leave no trace."""
        pos = list(pos)
        flat = [k for k in range(3) if not (ext[k] and ext[k] > 0)]
        for k in flat:
            if rng.random() < 0.5:
                pos[k] = rng.choice([-1, -3, 2, 7]) if grid else rng.choice([-1.5, -0.125, 2.0, 9.25])
        return tuple(pos)

    def compare():
        exp = list(ref.values())
        ctx.ev()
        ctx.count('accessor_comparisons')

        def look_len():
            check(len(env) == len(exp), f'len(environment)={len(env)} but {len(exp)} agents live', trace=trace[-12:])

        def look_iter():
            got_iter = list(env)
            check(same_objects(got_iter, exp), 'iteration order differs from joining order of live agents',
                  expected=[a.id for a in exp], observed=[getattr(a, 'id', a) for a in got_iter], trace=trace[-12:])

        def look_listing():
            check(same_objects(env.get_agents(), exp), 'get_agents() differs from the live agents in joining order', trace=trace[-12:])

        def look_ids():
            for i_ in rng.sample(ids, min(2, len(ids))):
                check(env.get_agent(i_) is ref.get(i_), f'get_agent({i_!r}) returned the wrong object', trace=trace[-12:])

        # the accessors are consulted in a different order at every look, and now and then only one of them before the others follow (an
        # accessor that refreshes what another one relies on must not be what keeps the other one right)
        looks = [look_len, look_iter, look_listing, look_ids]
        rng.shuffle(looks)
        for f_ in looks:
            f_()
        ctx.count('looks_starting_with_' + looks[0].__name__[5:])
        listing = env.get_agents()
        if exp and len(exp) <= 10 and rng.random() < 0.25:
            # several iterations in progress at once (nested loops, zip, a half-consumed iterator): each visits the live agents in joining order
            pairs = [(a, b) for a in env for b in env]
            zipped = list(zip(env, env))
            it = iter(env)
            first = next(it)
            whole = list(env)
            rest = [first] + list(it)
            ctx.count('simultaneous_iterations')
            check(same_objects([a for a, _ in pairs], [a for a in exp for _ in exp]) and same_objects([b for _, b in pairs], [b for _ in exp for b in exp]),
                  'a nested loop over the environment does not pair every live agent with every live agent in joining order',
                  expected_pairs=len(exp) ** 2, observed_pairs=len(pairs), trace=trace[-12:])
            check(same_objects([a for a, _ in zipped], exp) and same_objects([b for _, b in zipped], exp),
                  'zip(env, env) does not visit the live agents in joining order twice', observed=[(a.id, b.id) for a, b in zipped], trace=trace[-12:])
            check(same_objects(whole, exp) and same_objects(rest, exp), 'an iteration in progress is disturbed by another iteration over the same environment',
                  expected=[a.id for a in exp], resumed=[a.id for a in rest], trace=trace[-12:])
        if rng.random() < 0.3:
            # what the caller does with a listing it was handed is its own business: the environment's views stay in agreement
            junk = rng.choice(['reverse', 'clear', 'append', 'shuffle'])
            if junk == 'reverse':
                listing.reverse()
            elif junk == 'clear':
                listing.clear()
            elif junk == 'append':
                listing.append('not an agent')
            else:
                shuffled = env.shuffle()            # the library's own shuffle works on a listing as well
                check(sorted(map(id, shuffled)) == sorted(map(id, exp)), 'shuffle() is not a permutation of the live agents', trace=trace[-12:])
            ctx.count('listings_edited_by_the_caller')
            check(same_objects(env.get_agents(), exp) and same_objects(list(env), exp) and len(env) == len(exp),
                  f'after the caller edited a listing it had been handed ({junk}), get_agents() / iteration / len no longer agree with the live agents',
                  listing=[getattr(a, 'id', a) for a in env.get_agents()], expected=[a.id for a in exp], trace=trace[-12:])
        for i in ids + ['nobody']:
            a = ref.get(i)
            check(env.get_agent(i) is a, f'get_agent({i!r}) returned the wrong object', trace=trace[-12:])
            if a is not None:
                check(env.get_agent(i, True) is a, f'strict get_agent({i!r}) returned the wrong object')
            if rng.random() < 0.1:
                from vlib import reps as _reps
                ctx.count('deprecated_alias_calls')
                check(_reps.deprecated_call(env.getAgent, i) is a, f'the deprecated spelling getAgent({i!r}) does not answer like get_agent', trace=trace[-12:])
        if spatial:
            for a in universe:
                has = P in a.components
                check(has == (ref.get(a.id) is a), f'agent object {a.id}: PositionComponent present={has} but resident={ref.get(a.id) is a}',
                      trace=trace[-12:])

    def probe(name, exc, fn, *args, forbid=()):
        before = snap()
        try:
            r = fn(*args)
        except Exception as e:  # noqa
            ok = isinstance(e, exc) and not isinstance(e, forbid)
            if not ok:
                raise CaseViolation(f'{name}: raised {type(e).__name__}({e}) instead of {getattr(exc, "__name__", exc)}', trace=trace[-12:])
        else:
            raise CaseViolation(f'{name}: accepted (returned {r!r}) instead of raising', trace=trace[-12:], world=(kind, ext))
        after = snap()
        ctx.ev()
        if before != after:
            raise CaseViolation(f'{name}: the rejected operation changed {diff(before, after)}', trace=trace[-12:], world=(kind, ext),
                                before={k: before[k] for k in diff(before, after)}, after={k: after[k] for k in diff(before, after)})
        ctx.count('probe_' + name.split(':')[0])

    def probes():
        # duplicate id: same object, and an impostor (non-resident object with the same id, with components)
        for i, a in list(ref.items()):
            if rng.random() < 0.6:
                probe('dup_same', core.DuplicateAgentError, env.add_agent, a, *rnd_pos())
            imp = [b for b in universe if b.id == i and b is not a]
            b = rng.choice(imp) if imp else None
            if b is None:
                b = core.Agent(i, model)
                b.add_component(K[0](b, model))
                universe.append(b)
            probe('dup_impostor', core.DuplicateAgentError, env.add_agent, b, *rnd_pos())
            if spatial and rng.random() < 0.5:
                # out of bounds AND taken id: either documented error
                ax = [k for k in range(3) if ext[k] and ext[k] > 0]
                if ax:
                    k = rng.choice(ax)
                    pos = list(rnd_pos())
                    pos[k] = rng.choice([-step, ext[k] - off + step])
                    probe('oob_taken_id', Exception, env.add_agent, b, *pos)
        unknown = [i for i in ids if i not in ref] + ['nobody']
        for i in unknown:
            probe('remove_unknown', core.AgentNotFoundError, env.remove_agent, i)
            probe('strict_unknown', core.AgentNotFoundError, env.get_agent, i, True)
            before = snap()
            check(env.get_agent(i) is None, f'non-strict get_agent of unknown id {i!r} did not return None')
            check(before == snap(), 'non-strict lookup changed state')
            ctx.count('probe_nonstrict_unknown')
        if spatial:
            free = [b for b in universe if b.id not in ref]
            if free:
                for k in range(3):
                    if not (ext[k] and ext[k] > 0):
                        continue
                    for side, v in (('low', -step), ('high', ext[k] - off + step), ('far', rng.choice([-10 ** 9, 10 ** 9]))) + \
                            ((('low', -0.5), ('high', ext[k] - off + 0.5)) if grid and rng.random() < 0.3 else ()):
                        b = rng.choice(free)
                        pos = list(rnd_pos())
                        pos[k] = v
                        probe(f'oob:{"xyz"[k]}:{side}', Exception, env.add_agent, b, *pos, forbid=(core.DuplicateAgentError,))
                        ctx.count(f'oob_{"xyz"[k]}_{side}')
                        if P not in b.components:
                            ctx.count('rejected_agent_without_position')

    compare()
    probes()
    look_p = rng.choice([1.0, 1.0, 0.5, 0.2])
    for _ in range(rng.randint(15, 30)):
        x = rng.random()
        if rng.random() < 0.04:
            # the whole set-up is duplicated with copy.deepcopy and the history goes on with the duplicate
            import copy as _copy
            old_universe = universe
            model, universe, other_model = _copy.deepcopy((model, universe, other_model))
            env = model.environment
            remap = {id(o): n for o, n in zip(old_universe, universe)}
            ref = {i: remap[id(a)] for i, a in ref.items()}
            left = {i: remap[id(a)] for i, a in left.items()}
            ctx.count('histories_continued_on_a_deep_copy')
            trace.append(('deepcopy',))
            compare()
            probes()
        if rng.random() < 0.03 and model.is_running():
            # the model is marked complete (its run is over): the environment goes on holding agents that may come and go like before
            # (post-run reporting, tear-down, a population edited for the next run)
            model.complete()
            ctx.count('histories_continued_after_the_model_completed')
            trace.append(('model.complete()',))
        free = [b for b in universe if b.id not in ref]
        if x < 0.5 and free:
            b = rng.choice(free)
            edge = rng.random() < 0.3
            pos = rnd_pos(edge)
            if spatial and rng.random() < 0.25 and junk_on_flat_axes(pos) != pos:
                jpos = junk_on_flat_axes(pos)
                before = snap()
                try:
                    env.add_agent(b, *jpos)
                    pos = jpos
                    ctx.count('flat_axis_junk_accepted')
                except Exception:  # noqa - a refusal is allowed, a trace is not
                    ctx.count('flat_axis_junk_refused')
                    after = snap()
                    if before != after:
                        raise CaseViolation(f'placement {jpos} was refused but changed {diff(before, after)}', world=(kind, ext), trace=trace[-8:])
                    continue
            elif rng.random() < 0.12:
                with warnings.catch_warnings():         # the deprecated spelling: same operation, default placement at the origin
                    warnings.simplefilter('ignore')
                    env.addAgent(b)
                pos = (0, 0, 0) if spatial else ()
                ctx.count('deprecated_alias_calls')
            else:
                env.add_agent(b, *pos)
            if b.id in left and left[b.id] is not b:
                flags.add('readd')
                ctx.count('readd_colliding_id')
            ref[b.id] = b
            trace.append(('add', b.id, universe.index(b), pos))
            if spatial:
                check(b[P].xyz() == tuple(pos), f'accepted placement landed at {b[P].xyz()} instead of {tuple(pos)}')
                if edge:
                    ctx.count('edge_placements')
        elif x < 0.85 and ref:
            keys = list(ref)
            i = rng.choice(keys)
            if 0 < keys.index(i) < len(keys) - 1:
                ctx.count('middle_removals')
                flags.add('middle')
            if rng.random() < 0.12:
                with warnings.catch_warnings():
                    warnings.simplefilter('ignore')
                    env.removeAgent(i)        # deprecated spelling
                ctx.count('deprecated_alias_calls')
            else:
                env.remove_agent(i)           # removing a present agent always succeeds
            left[i] = ref.pop(i)
            trace.append(('remove', i))
        else:
            trace.append(('lookup',))
        if rng.random() >= look_p:
            ctx.count('operations_after_which_nobody_looked')       # several changes pile up between two looks at the environment
            continue
        compare()
        probes()
        # the LAST thing anybody asks before the next change is, at random, one of the accessors (what a look leaves behind - a list built
        # for the last question, a counter refreshed by it - must not be what the next answer depends on)
        rng.choice([env.get_agents, lambda: len(env), lambda: list(env), lambda: env.get_agent(rng.choice(ids)), lambda: None])()
    # a join that fails HALF-WAY (one of the newcomer's components was registered by hand before, so its registration is refused with
    # the documented KeyError): whatever the outcome for the newcomer, the views of the environment still agree with each other
    from vlib import faults
    m2 = core.Model()
    k2, e2 = 'plain', m2.environment        # (in a spatial world such a newcomer is left without a position: outside this property)
    for j in range(rng.randint(1, 3)):
        e2.add_agent(core.Agent(f'r{j}', m2))
    e2.get_agents(), e2.get_agents(K[0])
    nb = core.Agent('newcomer', m2)
    for T in K:
        nb.add_component(T(nb, m2))
    m2.systems.register_component(nb[rng.choice(K[1:])])
    _, err = faults.attempt(e2.add_agent, nb)
    ctx.count('joins_failing_half_way')
    listing, iterated, n2, looked_up = e2.get_agents(), list(e2), len(e2), e2.get_agent('newcomer')
    ok = same_objects(listing, iterated) and n2 == len(iterated) and (looked_up is not None) == any(a is nb for a in iterated) \
        and sorted(map(id, e2.shuffle())) == sorted(map(id, iterated))
    if not ok:
        raise CaseViolation('after a join that failed half-way (a component of the newcomer was already registered) the views of the '
                            'environment disagree with each other', error=repr(err), listing=[a.id for a in listing],
                            iteration=[a.id for a in iterated], length=n2, lookup=getattr(looked_up, 'id', None), world=k2)
    ctx.state((kind, tuple(ext or ()), tuple(sorted(ref))))
    if {'middle', 'readd'} <= flags:
        ctx.distinct((kind, tuple(ext or ()), tuple(t[:2] for t in trace)))
    if case['i'] < 3:
        ctx.sample({'kind': 'history', 'i': case['i'], 'world': kind, 'extents': ext, 'trace': trace[:12]})



def case_big(ctx, case):
    """Scale regime: 100-300 agents, hundreds of add/remove/re-add operations (ids re-used by the same and by other objects), accessors
    compared after every operation, error paths injected every 25 operations."""
    rng = ctx.rng('big', case['i'])
    core, envs, K = fixtures()
    model = core.Model()
    kind = rng.choice(['plain', 'plain', 'grid'])
    env = model.environment
    if kind == 'grid':
        env = model.environment = envs.GridWorld(model, 9, 7)
    n_ids = rng.choice([100, 160, 300])
    universe = []
    for j in range(n_ids + n_ids // 4):
        a = core.Agent(f'id{j % n_ids}', model)          # a quarter of the ids exist twice (two objects, one id)
        for T in K:
            if rng.random() < 0.6:
                a.add_component(T(a, model))
        universe.append(a)
    ref = {}
    ops = 0

    def add(a):
        if kind == 'grid':
            env.add_agent(a, rng.randint(0, 8), rng.randint(0, 6))
        else:
            env.add_agent(a)
        ref[a.id] = a

    def compare(what):
        exp = list(ref.values())
        ctx.ev()
        ctx.count('accessor_comparisons')
        got = env.get_agents()
        if not (len(env) == len(exp) and same_objects(list(env), exp) and same_objects(got, exp)):
            raise CaseViolation(f'{what}: len/iteration/get_agents disagree with the live agents ({len(exp)} live; len={len(env)}, '
                                f'iter={len(list(env))}, listing={len(got)})', world=kind, ops=ops,
                                listing_ids=[getattr(x, 'id', x) for x in got][:12], expected_ids=[x.id for x in exp][:12])

    for a in rng.sample(universe, len(universe)):
        if a.id not in ref:
            add(a)
            ops += 1
            if ops % 10 == 0:
                compare('while filling')
            if ops in (9, 14, 22, 30, 45) and ref:           # some agents leave while the population is still small
                gone = rng.choice(list(ref))
                env.remove_agent(gone)
                del ref[gone]
    compare('after filling')
    for _ in range(3 * n_ids):
        ops += 1
        x = rng.random()
        if x < 0.5 and ref:
            i = rng.choice(list(ref))
            env.remove_agent(i)                    # removing a present agent always succeeds
            old = ref.pop(i)
            if rng.random() < 0.6:                 # the id is taken again at once: by the same object or by its twin
                twins = [b for b in universe if b.id == i]
                add(rng.choice(twins))
        else:
            free = [b for b in universe if b.id not in ref]
            if free:
                add(rng.choice(free))
        compare('after add/remove churn')
        for i in rng.sample(list(ref), min(3, len(ref))):
            check(env.get_agent(i) is ref[i] and env.get_agent(i, True) is ref[i], f'get_agent({i!r}) returned the wrong object')
        if ops % 25 == 0 and ref:
            i = rng.choice(list(ref))
            before = snapshot(model, universe[:40], K)
            try:
                add(next(b for b in universe if b.id == i)) if False else env.add_agent(ref[i], *((0, 0) if kind == 'grid' else ()))
            except core.DuplicateAgentError:
                ctx.count('probe_dup_same')
            else:
                raise CaseViolation('duplicate add accepted in a large environment')
            check(before == snapshot(model, universe[:40], K), 'rejected duplicate add changed state')
    ctx.count('big_environments')
    ctx.count('big_ops', ops)
    ctx.distinct(('big', kind, n_ids, case['i']))
    if case['i'] < 1:
        ctx.sample({'kind': 'big environment', 'world': kind, 'ids': n_ids, 'objects': len(universe), 'operations': ops})


def run_case(ctx, case):
    (case_big if case.get('kind') == 'big' else case_history)(ctx, case)


def run(ctx):
    from vlib import contracts
    for i in range(N_HIST[ctx.tier]):
        if ctx.mine(i) and not ctx.full():
            ctx.run_case({'kind': 'hist', 'i': i}, run_case)
    for i in range(N_BIG[ctx.tier]):
        if ctx.mine(i) and not ctx.full():
            ctx.run_case({'kind': 'big', 'i': i}, run_case)
    for k, v in contracts.EVALS.items():
        ctx.count('contract:' + k, v)


def replay(ctx, case):
    ctx.run_case(case, run_case)
