"""C12 - positional queries return exactly the agents inside the leeway box.

Oracle: geometric filter in exact arithmetic (all coordinates are multiples of 1/8, so 'exactly on the face' is meaningful),
in joining order.  Non-wrapping worlds are the clean sub-workload (any discrepancy is a violation).  In wrapping worlds a
MISSING agent that lies inside the seam-aware box but outside the plain box is the known finding F5 (wrap-seam-ignored);
an extra agent or an agent missing although it is inside the plain box is a violation.
"""
from fractions import Fraction

from vlib.engine import CaseViolation
from vlib.util import check, same_objects

PROP = 'C12'
LEVEL = 'exploration'
SHARDS = {'quick': 4, 'thorough': 16}
TIMEOUT = {'quick': 300, 'thorough': 3000}
N_WORLDS = {'quick': 2500, 'thorough': 200000}
N_BIG = {'quick': 16, 'thorough': 1000}         # scale regime: 80-400 agents with churn
RULE = ('cases: seeded worlds (SpaceWorld continuous, DiscreteWorld/GridWorld/LineWorld; extents mixing 0 and >=1; wrap on/off) with 0-8 '
        'agents, 10 queries each; before a query some agents are moved exactly onto the faces q+-L of the box, made coincident, moved '
        'relatively or removed/re-added; query points inside and outside the world; general and per-axis leeways from {negative, 0, '
        'equal, one larger than the other}, also passed by keyword/default. Oracle: agent included iff on every axis |p-q| <= '
        'max(leeway, axis leeway) (seam-aware distance on positive-extent axes of wrapping worlds), in joining order. Non-trivial '
        'query: >=1 agent exactly on a face and the answer is neither empty nor everybody; distinct by (world, population, query).')
ASSUMPTIONS = ['coordinates and leeways are multiples of 1/8 (exact float arithmetic)', 'F5 (wrap seam ignored) is a known finding, not repaired']
FLOORS = {'quick': {'identical_queries_repeated_after_a_few_changes': 1771, 'worlds_queried_after_their_model_completed': 190, 'agents_carried_beyond_an_edge_by_a_direct_write': 530, 'positions_written_directly': 1557, 'queries_with_an_unbounded_integer_leeway': 243, 'cases_in_mode_debuglog': 209, 'moves_refused_for_a_wrong_typed_coordinate': 1009, 'answers_edited_by_the_caller': 3308, 'namesakes_in_another_world': 3222, 'queries_with_numpy_scalars': 1226, 'queries': 12000, 'queries_nonwrap': 6090, 'queries_wrap': 6070, 'on_face_agents': 5000, 'nonempty_answers': 4795,
                    'empty_answers': 2000, 'negative_leeway_queries': 981, 'axis_leeway_larger': 3000, 'general_leeway_larger': 3000,
                    'query_outside_world': 2000, 'coincident_pairs': 500, 'big_worlds': 8, 'big_queries': 150, 'agents_with_position_subclass_component': 1000, 'second_world_on_same_model': 300, 'reach:Environments.SpaceWorld.get_agents_at': 12000},
          'thorough': {'queries': 1000000, 'on_face_agents': 400000}}
EXHAUSTIVE = {}


def _wrap_kw(wrap):
    """wrap_env=False is the documented default: half of the non-wrapping worlds are built without naming it."""
    _wrap_kw.n += 1
    return {} if (wrap is False and _wrap_kw.n % 2) else {'wrap_env': wrap}


_wrap_kw.n = 0


def fixtures():
    import ECAgent.Core as core
    import ECAgent.Environments as envs
    return core, envs


_NEST = {}


def _nest_class(envs):
    if 'cls' not in _NEST:
        _NEST['cls'] = type('Nest', (envs.PositionComponent,), {'__slots__': ()})
    return _NEST['cls']


def case_world(ctx, case):
    rng = ctx.rng('world', case['i'])
    core, envs = fixtures()
    P = envs.PositionComponent
    from vlib import reps as _reps
    model = _reps.make_model(rng, core, p=0.45)         # default logger, a quiet user logger, or a user logger with DEBUG enabled
    kind = rng.choice(['space', 'space', 'discrete', 'grid', 'line'])
    wrap = rng.random() < 0.5
    if kind == 'space':
        ext = [rng.choice([2, 5, 10, 2.5, 7.125]), rng.choice([0, 3, 10, 6.5]), rng.choice([0, 0, 4])]
        env = envs.SpaceWorld(model, *ext, **_wrap_kw(wrap))
    elif kind == 'discrete':
        ext = [rng.choice([0, 3, 6]), rng.choice([0, 2, 5]), rng.choice([0, 1, 4])]
        env = envs.DiscreteWorld(model, *ext, **_wrap_kw(wrap))
    elif kind == 'grid':
        ext = [rng.randint(1, 7), rng.randint(1, 7), 0]
        env = envs.GridWorld(model, ext[0], ext[1], **_wrap_kw(wrap))
    else:
        ext = [rng.randint(1, 9), 0, 0]
        env = envs.LineWorld(model, ext[0], **_wrap_kw(wrap))
    model.environment = env
    grid = kind != 'space'
    off = 1 if grid else 0
    unit = 1 if grid else Fraction(1, 8)

    def hi(k):
        return ext[k] - off

    def rnd_coord(k):
        if ext[k] and ext[k] > 0:
            return rng.randint(0, int(hi(k))) if grid else rng.randint(0, int(hi(k) * 8)) / 8
        return 0 if rng.random() < 0.6 else (rng.randint(-2, 2) if grid else rng.randint(-16, 16) / 8)

    def in_range(k, v):
        return not (ext[k] and ext[k] > 0) or 0 <= v <= hi(k)

    order = []            # resident agents in joining order
    pool = [core.Agent(f'a{j}', model) for j in range(rng.randint(0, 8))]
    Nest = _nest_class(envs)
    for a in pool:
        if rng.random() < 0.25:
            # a user component derived from PositionComponent (e.g. the agent's nest), attached before the agent joins: it is NOT the position
            a.add_component(Nest(a, model, *[rnd_coord(k) for k in range(3)]))
            ctx.count('agents_with_position_subclass_component')
    if rng.random() < 0.3:
        # another populated world built on the same model (e.g. burrows next to the surface): its agents are not this world's agents
        other = envs.SpaceWorld(model, 50.0, 50.0, 50.0, id='OTHER')
        for j in range(rng.randint(1, 4)):
            other.add_agent(core.Agent(f'o{j}', model), *[float(rnd_coord(k) if (ext[k] and ext[k] > 0) else 0) for k in range(3)])
        ctx.count('second_world_on_same_model')
    for a in pool:
        if rng.random() < 0.8:
            env.add_agent(a, *[rnd_coord(k) for k in range(3)])
            order.append(a)
    nontrivial = False
    # a world of ANOTHER model is alive as well and gets agents with the SAME ids, placed elsewhere and moved around, while we query ours
    twin_model = core.Model()
    twin_env = envs.SpaceWorld(twin_model, 60.0, 60.0, 60.0)
    twin_model.environment = twin_env
    namesakes = {}
    complete_at = rng.randrange(10) if rng.random() < 0.25 else None
    for qn in range(10):
        if qn == complete_at:
            model.complete()          # queries on the world of a finished model (post-run reporting) are queries like any other
            ctx.count('worlds_queried_after_their_model_completed')
        for a in pool:
            x = rng.random()
            if a.id not in namesakes and x < 0.3:
                namesakes[a.id] = core.Agent(a.id, twin_model)
                twin_env.add_agent(namesakes[a.id], *[float(rng.randint(0, 59)) for _ in range(3)])
                ctx.count('namesakes_in_another_world')
            elif a.id in namesakes and x < 0.3:
                twin_env.move_to(namesakes[a.id], *[float(rng.randint(0, 59)) for _ in range(3)])
        # population change since placement
        for a in pool:
            x = rng.random()
            if a in order and x < 0.08:
                env.remove_agent(a.id)
                order.remove(a)
            elif a not in order and x < 0.3:
                env.add_agent(a, *[rnd_coord(k) for k in range(3)])
                order.append(a)
            elif a in order and x < 0.2:
                env.move(a, *[rng.randint(-3, 3) if grid else rng.randint(-24, 24) / 8 for _ in range(3)])
            elif a in order and 0.26 <= x < 0.32:
                # the documented manual alternative to move(): the position component is written directly ('doesn't do any bound checking',
                # advanced tutorial) - the agent may end up a little beyond an edge; a query answers by the positions the agents HAVE
                p_ = a.components[P]
                for attr_ in rng.sample(['x', 'y', 'z'], rng.randint(1, 3)):
                    setattr(p_, attr_, getattr(p_, attr_) + (rng.randint(-2, 2) if grid else rng.randint(-16, 16) / 8))
                ctx.count('positions_written_directly')
                if any(ext[k] and ext[k] > 0 and not (0 <= p_.xyz()[k] <= (ext[k] - 1 if grid else ext[k])) for k in range(3)):
                    ctx.count('agents_carried_beyond_an_edge_by_a_direct_write')
            elif a in order and x < 0.26 and sum(1 for e in ext if e and e > 0) >= 2:
                # an absolute move that the world refuses because a LATER coordinate has the wrong type: the agent stays where it is
                from vlib import faults
                kbad = rng.choice([k for k in range(1, 3) if ext[k] and ext[k] > 0])
                args = [rnd_coord(k) for k in range(3)]
                args[kbad] = rng.choice([None, 'north'])
                before_ = a.components[P].xyz()
                _, err = faults.attempt(env.move_to, a, *args)
                ctx.count('moves_refused_for_a_wrong_typed_coordinate')
                if err is None or a.components[P].xyz() != before_:
                    raise CaseViolation(f'move_to{tuple(args)} (wrong-typed coordinate) ' + ('was accepted' if err is None else
                                        f'was refused ({type(err).__name__}) but moved the agent from {before_} to {a.components[P].xyz()}'),
                                        world=(kind, ext, wrap))
        # query
        q = []
        for k in range(3):
            if rng.random() < 0.2:
                q.append((rng.choice([-1, 1]) * rng.randint(1, 3) + (hi(k) if rng.random() < 0.5 and ext[k] else 0)) * (1 if grid else 1.0))
            else:
                q.append(rnd_coord(k))
        lee_pool = [-1, 0, 0, 1, 2, 3] if grid else [-1.0, -0.125, 0, 0.0, 0.125, 0.5, 1.0, 2.5, 3]
        L = rng.choice(lee_pool)
        AL = [rng.choice([0, 0, L] + lee_pool) for _ in range(3)]
        if grid and rng.random() < 0.05:
            # every argument an int, and a leeway that stands for 'no limit' on one axis (sys.maxsize) or in general (2**70)
            import sys as _sys
            q = [int(v) for v in q]
            L = rng.choice([0, 1, 2 ** 70])
            AL = [int(v) if isinstance(v, int) else 0 for v in AL]
            AL[rng.randrange(3)] = _sys.maxsize
            ctx.count('queries_with_an_unbounded_integer_leeway')
        eff = [max(L, AL[k]) for k in range(3)]
        # put agents exactly on faces / at the centre / coincident
        faced = 0
        for a in order:
            if rng.random() < 0.45:
                tgt = []
                for k in range(3):
                    c = rng.choice([q[k] - eff[k], q[k] + eff[k], q[k], q[k] - eff[k] - unit, q[k] + eff[k] + unit])
                    tgt.append(c if in_range(k, c) and (not grid or c == int(c)) else rnd_coord(k))
                if grid:
                    tgt = [int(t) for t in tgt]
                else:
                    tgt = [float(t) for t in tgt]
                env.move_to(a, *tgt)
        if len(order) >= 2 and rng.random() < 0.2:
            b, c = rng.sample(order, 2)
            bx = b.components[P].xyz()
            if all(not (ext[k] and ext[k] > 0) or 0 <= bx[k] <= (ext[k] - 1 if grid else ext[k]) for k in range(3)):
                env.move_to(c, *bx)
            else:       # b was carried beyond an edge by a direct write: c joins it the same way
                c.components[P].x, c.components[P].y, c.components[P].z = bx
            ctx.count('coincident_pairs')
        # the call, with varying argument styles
        style = rng.random()
        if style >= 0.8 and any(abs(v) > 2 ** 52 for v in [L] + [c_ for a_ in order for c_ in a_[P].xyz()]):
            # the defaulted z query is the FLOAT 0.0: with integers beyond 2**52 in play, which side of a box face an agent is on would then
            # depend on how the implementation rounds (difference first or bounds first) - all arguments stay exact ints here
            style = 0.5
        if style < 0.15 and all(abs(v) < 2 ** 31 for v in list(q) + [L] + AL + [c_ for a_ in order for c_ in a_[P].xyz()]):
            # (every number involved - the residents' coordinates too - well inside 64 bits: numpy arithmetic between a numpy integer and a
            #  Python int beyond 64 bits overflows inside numpy, whatever the library does)
            # the same numbers as numpy scalars (coordinates / leeways read from arrays)
            import numpy as np
            N = lambda v: (np.int64(v) if isinstance(v, int) else np.float64(v))    # noqa
            got = env.get_agents_at(N(q[0]), N(q[1]), N(q[2]), N(L), N(AL[0]), N(AL[1]), N(AL[2]))
            ctx.count('queries_with_numpy_scalars')
        elif style < 0.6:
            got = env.get_agents_at(q[0], q[1], q[2], L, AL[0], AL[1], AL[2])
        elif style < 0.8:
            got = env.get_agents_at(x_pos=q[0], y_pos=q[1], z_pos=q[2], leeway=L, x_leeway=AL[0], y_leeway=AL[1], z_leeway=AL[2])
        else:   # defaults: z query 0 / no per-axis leeways
            AL = [0, 0, 0]
            eff = [max(L, 0)] * 3
            q[2] = 0
            got = env.get_agents_at(q[0], q[1], leeway=L)
        plain, torus = [], []
        for a in order:
            p = a.components[P].xyz()
            inp, intor = True, True
            for k in range(3):
                d = abs(Fraction(p[k]) - Fraction(q[k]))
                if d == eff[k] and eff[k] >= 0:
                    faced += 1
                if d > eff[k]:
                    inp = False
                    if wrap and ext[k] and ext[k] > 0:
                        E = Fraction(ext[k])
                        dm = d % E
                        if min(dm, E - dm) > eff[k]:
                            intor = False
                    else:
                        intor = False
            if inp:
                plain.append(a)
            if intor:
                torus.append(a)
        ctx.ev()
        ctx.count('queries')
        ctx.count('queries_wrap' if wrap else 'queries_nonwrap')
        ctx.count('on_face_agents', faced)
        if min(eff) < 0:
            ctx.count('negative_leeway_queries')
        if any(AL[k] > L for k in range(3)):
            ctx.count('axis_leeway_larger')
        if any(L > AL[k] for k in range(3)):
            ctx.count('general_leeway_larger')
        if any(not in_range(k, q[k]) for k in range(3)):
            ctx.count('query_outside_world')
        detail = dict(world=(kind, ext, wrap), query=q, leeway=L, axis_leeways=AL,
                      population=[(a.id, a.components[P].xyz()) for a in order], observed=[getattr(a, 'id', repr(a)) for a in got])
        check(isinstance(got, list), 'get_agents_at did not return a list', **detail)
        expected = torus if wrap else plain
        ctx.count('nonempty_answers' if expected else 'empty_answers')
        if not same_objects(got, expected):
            extra = [a for a in got if not any(a is b for b in expected)]
            missing = [a for a in expected if not any(a is b for b in got)]
            if wrap and not extra and missing and all(not any(a is b for b in plain) for a in missing) \
                    and same_objects(got, [a for a in expected if not any(a is b for b in missing)]):
                ctx.finding('wrap-seam-ignored', 'agent within leeway across the seam of a wrapping world is not returned',
                            {'case': case, **{k: v for k, v in detail.items()}, 'missing': [a.id for a in missing]})
            else:
                raise CaseViolation('get_agents_at differs from the leeway box' + (' (order)' if not extra and not missing else ''),
                                    expected=[a.id for a in expected], extra=[getattr(a, 'id', a) for a in extra], missing=[a.id for a in missing],
                                    **detail)
        if not wrap and len(order) >= 1 and rng.random() < 0.5:
            # the very same question again after a few changes and nothing else in between: someone leaves and someone joins (the same
            # agent or another one), an agent is pushed against a wall by a relative move that overshoots, or pushed and pulled back
            def box_now():
                return [a_ for a_ in order if all(abs(Fraction(a_.components[P].xyz()[k_]) - Fraction(q[k_])) <= eff[k_] for k_ in range(3))]
            for _ in range(rng.randint(1, 3)):
                kind_ = rng.choice(['swap', 'swap', 'overshoot', 'there_and_back'])
                a_ = rng.choice(order)
                if kind_ == 'swap':
                    env.remove_agent(a_.id)
                    order.remove(a_)
                    outside_ = [b_ for b_ in pool if not any(b_ is c_ for c_ in order)]
                    b_ = rng.choice(outside_)
                    spot_ = [rng.choice([q[k_], rnd_coord(k_)]) if in_range(k_, q[k_]) and (not grid or q[k_] == int(q[k_])) else rnd_coord(k_) for k_ in range(3)]
                    env.add_agent(b_, *[int(v_) if grid else float(v_) for v_ in spot_])
                    order.append(b_)
                elif kind_ == 'overshoot':
                    env.move(a_, *[rng.choice([-1, 1]) * (1000 if grid else 1000.0) if (ext[k_] and ext[k_] > 0 and rng.random() < 0.6) else 0 for k_ in range(3)])
                else:
                    d_ = [rng.randint(-2, 2) if grid else rng.randint(-16, 16) / 8 for _ in range(3)]
                    before_ = a_.components[P].xyz()
                    env.move(a_, *d_)
                    env.move_to(a_, *before_) if all(in_range(k_, before_[k_]) for k_ in range(3)) else None
            again = env.get_agents_at(q[0], q[1], q[2], L, AL[0], AL[1], AL[2])
            ctx.count('identical_queries_repeated_after_a_few_changes')
            want_ = box_now()
            if not same_objects(again, want_):
                raise CaseViolation('the same positional query, asked again after a few agents had left / joined / been pushed against a wall, differs '
                                    'from the leeway box', expected=[a_.id for a_ in want_], observed=[getattr(a_, 'id', a_) for a_ in again],
                                    world=(kind, ext, wrap), query=q, leeway=L, axis_leeways=AL,
                                    population=[(a_.id, a_.components[P].xyz()) for a_ in order])
        # the answer belongs to the caller, who may do with it what it likes
        junk = rng.random()
        if junk < 0.3:
            got.append('not an agent')
            ctx.count('answers_edited_by_the_caller')
        elif junk < 0.4:
            got.clear()
            ctx.count('answers_edited_by_the_caller')
        if faced and 0 < len(expected) < len(order):
            nontrivial = True
            ctx.distinct((kind, tuple(ext), wrap, tuple(a.components[P].xyz() for a in order), tuple(q), L, tuple(AL)))
    ctx.state((kind, tuple(ext), wrap, len(order)))
    if case['i'] < 3:
        ctx.sample({'kind': 'world', 'i': case['i'], 'world': kind, 'extents': ext, 'wrap': wrap,
                    'last_query': {'q': q, 'leeway': L, 'axis': AL, 'population': [(a.id, a.components[P].xyz()) for a in order],
                                   'answer': [getattr(a, 'id', a) for a in got]}})



def case_big(ctx, case):
    """Scale regime: 80-400 agents in one non-wrapping world, with churn (agents leaving and joining so that joining numbers exceed the
    population), many agents exactly on the faces of the query box, queries before and after removals and moves."""
    rng = ctx.rng('big', case['i'])
    core, envs = fixtures()
    P = envs.PositionComponent
    model = core.Model()
    grid = rng.random() < 0.5
    ext = [rng.randint(12, 30), rng.randint(8, 20), rng.choice([0, 5])]
    env = (envs.DiscreteWorld(model, *ext) if grid else envs.SpaceWorld(model, *[float(e) for e in ext]))
    model.environment = env
    off = 1 if grid else 0

    def rnd(k):
        if not ext[k]:
            return 0
        return rng.randint(0, ext[k] - off) if grid else rng.randint(0, (ext[k] - off) * 8) / 8

    n = rng.choice([80, 150, 300, 400])
    pool = [core.Agent(f'p{j}', model) for j in range(n + n // 3)]
    order = []
    for a in pool[:n]:
        env.add_agent(a, rnd(0), rnd(1), rnd(2))
        order.append(a)

    def query(what):
        q = [rnd(k) for k in range(3)]
        L = rng.choice([0, 1, 2, 3] if grid else [0, 0.5, 1.0, 2.5])
        AL = [rng.choice([0, L, L + 1]) for _ in range(3)]
        eff = [max(L, AL[k]) for k in range(3)]
        for a in rng.sample(order, min(12, len(order))):          # agents exactly on the faces (also the +x face)
            tgt = [rng.choice([q[k] - eff[k], q[k] + eff[k], q[k] + eff[k], q[k]]) for k in range(3)]
            if all((not ext[k]) or 0 <= tgt[k] <= ext[k] - off for k in range(3)):
                env.move_to(a, *[(int(t) if grid else float(t)) for t in tgt])
        got = env.get_agents_at(q[0], q[1], q[2], L, AL[0], AL[1], AL[2])
        exp = [a for a in order if all(abs(Fraction(a.components[P].xyz()[k]) - Fraction(q[k])) <= eff[k] for k in range(3))]
        ctx.ev()
        ctx.count('big_queries')
        if not same_objects(got, exp):
            extra = [a.id for a in got if not any(a is b for b in exp)]
            missing = [a.id for a in exp if not any(a is b for b in got)]
            raise CaseViolation(f'{what}: get_agents_at in a world with {len(order)} agents differs from the leeway box' +
                                (' (joining order)' if not extra and not missing else ''), query=q, leeway=L, axis_leeways=AL,
                                extra=extra[:8], missing=missing[:8], observed=[a.id for a in got][:12], expected=[a.id for a in exp][:12])

    query('initial population')
    for rnd_no in range(6):
        for a in rng.sample(order, max(1, len(order) // 6)):       # churn: some leave ...
            env.remove_agent(a.id)
            order.remove(a)
        query('after removals')
        for a in rng.sample([b for b in pool if not any(b is c for c in order)], max(1, len(order) // 8)):   # ... others (re)join
            env.add_agent(a, rnd(0), rnd(1), rnd(2))
            order.append(a)
        for a in rng.sample(order, 10):
            env.move(a, rng.randint(-2, 2), rng.randint(-2, 2), 0)
        query('after churn and moves')
        victim = rng.choice(order[:-1])                             # one agent (not the latest joiner) leaves between two queries
        env.remove_agent(victim.id)
        order.remove(victim)
        env.move(rng.choice(order), 1, 0, 0)
        query('after a single removal')
    ctx.count('big_worlds')
    ctx.distinct(('big', grid, tuple(ext), n, case['i']))


def run_case(ctx, case):
    (case_big if case.get('kind') == 'big' else case_world)(ctx, case)


def run(ctx):
    for i in range(N_WORLDS[ctx.tier]):
        if ctx.mine(i) and not ctx.full():
            ctx.run_case({'kind': 'world', 'i': i}, run_case)
    for i in range(N_BIG[ctx.tier]):
        if ctx.mine(i) and not ctx.full():
            ctx.run_case({'kind': 'big', 'i': i}, run_case)


def replay(ctx, case):
    ctx.run_case(case, run_case)
