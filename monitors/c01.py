"""C01 - systems run in descending priority, registration order among equals.

History + reference model: a driver issues add / remove / step / rejected ops against a real Model; instrumented
System (and real Collector) subclasses log their executions; a reference list of (priority-at-registration, seqno)
predicts each step's order. Second monitor: icontract invariant on SystemManager (queue is a priority-sorted
permutation of the registry) evaluated at every public-method exit.
"""
import itertools

from vlib.engine import CaseViolation, sig
from vlib.util import check, expect_raises

PROP = 'C01'
LEVEL = 'exploration'
SHARDS = {'quick': 4, 'thorough': 16}
TIMEOUT = {'quick': 300, 'thorough': 3000}
N_HIST = {'quick': 2000, 'thorough': 160000}
PERM_N = {'quick': 5, 'thorough': 6}
N_BIG = {'quick': 12, 'thorough': 1500}        # histories over 20-150 systems (queue first filled up), 6 ops per system
RULE = ('cases: (a) seeded random histories of 30-200 ops (add 45%/remove 25%/step 20%/duplicate-add 5%/unknown-remove 5%) '
        'over 6-10 system ids with priorities from {-3..3, +-10^12} forced to repeat, systems re-registered after removal '
        '(priority sometimes changed while unregistered), real Collector subclasses (default priority -1) mixed in, registrations / removals / '
        're-registrations also issued from inside a timestep by a system (also in the middle of ONE execute(n) call), timesteps requested through execute_systems() / execute() / execute(n) / the deprecated alias, identifiers as str-subclass instances, priorities as numpy integers, falsy system objects (__len__ 0 / __bool__ False), models with a quiet user logger, timesteps cut short by a system that raises (ordinary exceptions of many classes and KeyboardInterrupt-like BaseExceptions; the caller catches and carries on), and usually two models alive at once that share the system ids; '
        '(a2) the same over 20-150 systems with the queue filled first (scale regime: long queues, many ties); (b) for each priority multiset over n<=N systems every distinct registration order (exhaustive). '
        'A case is non-trivial when an executed timestep contained >=1 pair of equal-priority neighbours AND (for '
        'histories) >=1 system was re-registered; distinct = distinct (priority sequence in registration order, op-kind '
        'trace) signature.')
ASSUMPTIONS = ['priorities are fixed while a system is registered (as the property states)',
               'systems do not override __eq__ (identity equality)',
               'the System/Collector subclasses used for logging only append to a list in execute()/collect()']
FLOORS = {'quick': {'systems_whose_window_closes': 2061, 'systems_that_start_late': 2498, 'pattern_like_or_unnormalised_ids': 2400, 'cases_in_mode_debuglog': 169, 'cases_in_mode_warnings': 169, 'cases_in_mode_optimised': 169, 'failing_system_interrupt': 317, 'timesteps_with_a_failing_system': 1114, 'unrelated_models_constructed_mid_history': 1979, 'steps_after_in_call_change': 1679, 'steps_inside_multi_step_call': 5730, 'step_via_executeSystems': 3411, 'step_via_execute': 3434, 'falsy_system_objects': 3454, 'tie_pairs': 500, 'rejected_add': 50, 'rejected_remove': 50, 'steps_compared': 2000,
                    'reregistrations': 200, 'in_cycle_change_steps': 1000, 'big_histories': 6, 'big_systems': 300, 'two_model_histories': 500, 'contract:SystemManager.queue': 1000, 'reach:Core.SystemManager.add_system': 1000,
                    'reach:Core.SystemManager.execute_systems': 1000},
          'thorough': {'tie_pairs': 50000, 'rejected_add': 5000, 'rejected_remove': 5000, 'steps_compared': 100000,
                       'contract:SystemManager.queue': 100000}}
EXHAUSTIVE = {}

PRIOS = [-3, -2, -1, 0, 1, 2, 3, -10 ** 12, 10 ** 12]
MULTISETS = None


def _fixtures():
    import ECAgent.Core as core
    import ECAgent.Collectors as collectors

    class LogSystem(core.System):
        def __init__(self, id, model, log, priority=0):
            super().__init__(id, model, priority=priority)
            self.log = log
            self.intended_priority = priority

        def execute(self):
            self.log.append((self.model.systems.timestep, self.id))
            fault = getattr(self.log, 'plan', {}).pop(self.id, None)       # a one-shot failure scheduled by the driver
            if fault is not None:
                from vlib import faults
                raise faults.make(fault, f'{self.id} fails')

    # user systems that are falsy although perfectly valid: a job queue that is empty (len 0), a switch that is off (bool False)
    LogSystemSized = type('LogSystemSized', (LogSystem,), {'__len__': lambda self: 0})
    LogSystemOff = type('LogSystemOff', (LogSystem,), {'__bool__': lambda self: False})

    class LogCollector(collectors.Collector):
        """A real Collector: default priority (-1) unless given, collect() is what execute() calls."""

        def __init__(self, id, model, log, priority=None):
            if priority is None:
                super().__init__(id, model)
            else:
                super().__init__(id, model, priority=priority)
            self.log = log
            self.intended_priority = -1 if priority is None else priority      # documented collector default: -1

        def collect(self):
            LogSystem.execute(self)

    class LogCollectorSized(LogCollector):
        """len(collector) = number of records collected so far (0: nothing is ever stored by collect() above)."""

        def __len__(self):
            return len(self.records)

    class Mutator(core.System):
        """Applies queued registrations / removals from INSIDE a timestep (a system changing the system set)."""

        def __init__(self, model, driver):
            super().__init__('__mutator__', model, priority=10 ** 15)
            self.driver = driver

        def execute(self):
            d = self.driver
            t = self.model.systems.timestep
            d.order_at_start[t] = d.expected_order(t)
            pending, d.pending = d.pending, []
            pending = pending + d.pending_at.pop(t, [])
            if pending:
                d.mutated.add(t)
            for kind, obj in pending:
                if kind in ('remove', 'readd') and d.registered(obj.id) is not None:
                    self.model.systems.remove_system(obj.id)
                    d.ref.remove(d.registered(obj.id))
                if kind in ('add', 'readd') and d.registered(obj.id) is None:
                    self.model.systems.add_system(obj)
                    d.ref.append({'id': obj.id, 'obj': obj, 'prio': d.intended(obj), 'seq': d.seq})
                    d.seq += 1

    LogSystem.variants = [LogSystem, LogSystemSized, LogSystemOff]
    LogCollector.variants = [LogCollector, LogCollectorSized]
    return core, LogSystem, LogCollector, Mutator


class Driver:
    def __init__(self, ctx, rng=None):
        from vlib import contracts, reps
        import random as _r
        self.ctx = ctx
        self.rng = rng or _r.Random(0)
        self.core, self.LogSystem, self.LogCollector, Mutator = _fixtures()
        contracts.attach_system_manager(self.core)
        self.contracts = contracts
        self.model = reps.make_model(self.rng, self.core) if rng is not None else self.core.Model()
        self.pending_at, self.order_at_start, self.mutated = {}, {}, set()
        class Log(list):
            plan = None
        self.log = Log()
        self.log.plan = {}
        self.ref = []       # registered: dicts {id, obj, prio, seq}
        self.seq = 0
        self.trace = []
        self.pending = []
        self.model.systems.add_system(Mutator(self.model, self))     # always first, never logged

    def intended(self, obj):
        """The priority the harness asked for (constructor argument or later assignment) - not what the object reports back."""
        return getattr(obj, 'intended_priority')

    def expected_order(self, t=None):
        """The registered systems in (descending priority, registration order); for a timestep t only those whose window is open
        (some systems start late or retire early: they keep their place in the order all the same)."""
        return [r['id'] for r in sorted(self.ref, key=lambda r: (-r['prio'], r['seq'])) if t is None or r['obj'].start <= t <= r['obj'].end]

    def registered(self, sid):
        return next((r for r in self.ref if r['id'] == sid), None)

    def add(self, obj):
        r = self.registered(obj.id)
        if r is not None:
            expect_raises(KeyError, f'add_system of taken id {obj.id!r}', self.model.systems.add_system, obj, exact=True)
            self.ctx.count('rejected_add')
            self.trace.append('A!')
            self.probe()
            return False
        if self.rng.random() < 0.1:
            from vlib import reps
            reps.deprecated_call(self.model.systems.addSystem, obj)        # deprecated spelling of the same operation
            self.ctx.count('deprecated_alias_calls')
        else:
            self.model.systems.add_system(obj)
        self.ref.append({'id': obj.id, 'obj': obj, 'prio': self.intended(obj), 'seq': self.seq})
        self.seq += 1
        self.trace.append('A')
        self.lookups()
        return True

    def remove(self, sid, via_cleanup=False):
        r = self.registered(sid)
        if r is None:
            expect_raises(self.core.SystemNotFoundError, f'remove_system of unknown id {sid!r}',
                          self.model.systems.remove_system, sid, exact=True)
            self.ctx.count('rejected_remove')
            self.trace.append('R!')
            self.probe()
            return False
        if via_cleanup:
            r['obj'].clean_up()
            self.ctx.count('clean_up')
        elif self.rng.random() < 0.1:
            from vlib import reps
            reps.deprecated_call(self.model.systems.removeSystem, sid)
            self.ctx.count('deprecated_alias_calls')
        else:
            self.model.systems.remove_system(sid)
        self.ref.remove(r)
        self.trace.append('R')
        self.lookups()
        return True

    def lookups(self):
        ref = self.ref
        if len(ref) > 16:        # long queues: a sample of the registry per operation (every lookup re-evaluates the O(n) invariant)
            step = max(1, len(ref) // 8)
            ref = ref[self.seq % step::step]
        for r in ref:
            check(self.model.systems[r['id'][:]] is r['obj'], f'systems[{r["id"]!r}] is not the registered object')    # [:] -> plain str
            self.ctx.ev()

    def step(self):
        del self.log[:]
        t = self.model.systems.timestep
        how = self.rng.choice(['execute_systems', 'execute_systems', 'execute', 'execute(1)', 'executeSystems'])
        if how == 'execute_systems':
            self.model.systems.execute_systems()
        elif how == 'execute':
            self.model.execute()
        elif how == 'execute(1)':
            self.model.execute(1)
        else:
            import warnings
            with warnings.catch_warnings():
                warnings.simplefilter('ignore')
                self.model.systems.executeSystems()        # deprecated spelling
        self.ctx.count('step_via_' + how)
        exp = self.expected_order(t)
        self.ctx.ev()
        self.ctx.count('steps_compared')
        if [i for _, i in self.log] != exp or any(tt != t for tt, _ in self.log):
            raise CaseViolation('execution order of a timestep differs from (descending priority, registration order)',
                                expected=exp, observed=list(self.log), entry_point=how,
                                registered=[(r['id'], r['prio'], r['seq']) for r in self.ref], timestep=t)
        prios = {r['id']: r['prio'] for r in self.ref}
        ties = sum(1 for a, b in zip(exp, exp[1:]) if prios[a] == prios[b])
        self.ctx.count('tie_pairs', ties)
        self.ctx.state(tuple((prios[i]) for i in exp))
        self.trace.append('S')
        return ties

    def step_mutating(self):
        """A timestep during which the mutator system applies the queued changes.  Which of the affected systems run in this very
        step is C05's subject; here only 'nobody twice' is checked and the FOLLOWING steps must show the new order."""
        del self.log[:]
        self.model.systems.execute_systems()
        ids = [i for _, i in self.log]
        dup = [i for i in set(ids) if ids.count(i) > 1]
        if dup:
            raise CaseViolation(f'system(s) {dup} ran twice in a timestep during which the system set was changed', log=list(self.log))
        self.ctx.count('in_cycle_change_steps')
        self.trace.append('M')
        self.lookups()

    def step_failing(self):
        """A timestep in which one of the systems raises (an ordinary exception or a KeyboardInterrupt-like BaseException); the caller
        catches it and carries on with the same model.  What ran must be a prefix of the order; everything afterwards is judged as usual."""
        from vlib import faults
        if not self.ref:
            return
        victim = self.rng.choice(self.ref)['id']
        cls = faults.pick(self.rng)
        del self.log[:]
        self.log.plan[victim] = cls
        exp = self.expected_order(self.model.systems.timestep)
        if victim not in exp:
            self.log.plan.clear()
            return
        _, err = faults.attempt(self.model.systems.execute_systems if self.rng.random() < 0.5 else self.model.execute)
        self.log.plan.clear()
        got = [i for _, i in self.log]
        self.ctx.count('timesteps_with_a_failing_system')
        self.ctx.count('failing_system_interrupt' if cls is faults.Interrupt else 'failing_system_exception')
        if got != exp[:len(got)]:
            raise CaseViolation('the systems that ran in a timestep cut short by a failing system are not a prefix of (descending priority, '
                                'registration order)', expected=exp, observed=got, failing=victim, error=repr(err))
        self.trace.append('F')
        self.lookups()

    def step_many(self, n, schedule):
        """ONE call model.execute(n); `schedule` maps an offset within the call to changes a system applies during that timestep.
        Every timestep of the call in which nothing was changed must run exactly the order valid at its start."""
        del self.log[:]
        t0 = self.model.systems.timestep
        for off, changes in schedule.items():
            self.pending_at.setdefault(t0 + off, []).extend(changes)
        self.model.execute(n)
        check(self.model.systems.timestep == t0 + n, f'execute({n}) advanced the clock by {self.model.systems.timestep - t0}')
        for t in range(t0, t0 + n):
            got = [i for tt, i in self.log if tt == t]
            if t in self.mutated:
                dup = [i for i in set(got) if got.count(i) > 1]
                if dup:
                    raise CaseViolation(f'system(s) {dup} ran twice in a timestep during which the system set was changed', log=got)
                self.ctx.count('in_cycle_change_steps')
                continue
            exp = self.order_at_start.get(t)
            self.ctx.ev()
            self.ctx.count('steps_compared')
            self.ctx.count('steps_inside_multi_step_call')
            if exp is None or got != exp:
                raise CaseViolation(f'execute({n}): timestep {t} (offset {t - t0} of the call) did not run in (descending priority, '
                                    f'registration order) of the systems registered at its start', expected=exp, observed=got,
                                    changed_in_steps=sorted(x for x in self.mutated if t0 <= x < t0 + n), call_started_at=t0)
            if any(x for x in self.mutated if t0 <= x < t):
                self.ctx.count('steps_after_in_call_change')
        self.order_at_start.clear()
        self.mutated.clear()
        self.trace.append(f'N{n}')
        self.lookups()

    def probe(self):
        """After a rejected op nothing may have changed: registry lookups and the very next step must be as before."""
        self.lookups()
        self.step()


def case_history(ctx, case):
    big = case.get('kind') == 'big'
    rng = ctx.rng('big' if big else 'hist', case['i'])
    drivers = [Driver(ctx, rng) for _ in range(2 if rng.random() < 0.6 and not big else 1)]      # two models alive at once share the system ids
    if len(drivers) == 2:
        ctx.count('two_model_histories')
    k = rng.choice([20, 40, 70, 100, 150]) if big else rng.randint(6, 10)
    if big:
        ctx.count('big_histories')
        ctx.count('big_systems', k)
    pool = rng.sample(PRIOS, rng.randint(2, 4))        # few levels -> forced repeats
    from vlib import reps
    names = [reps.as_str(rng, n_, allow_enum=False) for n_ in reps.odd_ids(rng, 's', k, 0.35 if not big else 0.0, ctx)]      # str-subclass instances; ids that look like patterns / are not unicode-normalised
    P = lambda v: reps.as_int(rng, v)          # noqa: priorities may arrive as numpy integers
    for d in drivers:
        d.objs = {}
        for n in names:
            if rng.random() < 0.25:
                d.objs[n] = reps.pick_variant(rng, d.LogCollector.variants)(n, d.model, d.log, priority=None if rng.random() < 0.6 else P(rng.choice(pool)))
            else:
                d.objs[n] = reps.pick_variant(rng, d.LogSystem.variants)(n, d.model, d.log, priority=P(rng.choice(pool)))
            if type(d.objs[n]) not in (d.LogSystem, d.LogCollector):
                ctx.count('falsy_system_objects')
            if not big and rng.random() < 0.3:
                d.objs[n].start = rng.choice([1, 2, 3, 5, 8, 13])          # a system that starts late (its place in the order is fixed at registration)
                ctx.count('systems_that_start_late')
            if not big and rng.random() < 0.25:
                d.objs[n].end = d.objs[n].start + rng.choice([1, 3, 6, 10, 18])          # ... or retires after a while (it stays registered)
                ctx.count('systems_whose_window_closes')
        d.ever_removed = set()
    rereg, ties = 0, 0
    nops = rng.randint(30, 200) if ctx.tier == 'thorough' else rng.randint(30, 90)
    if big:
        nops = 6 * k
        for d in drivers:           # first fill up: the interesting regime is a LONG queue
            for n in names:
                d.add(d.objs[n])
    for _ in range(nops):
        d = rng.choice(drivers)
        objs, ever_removed = d.objs, d.ever_removed
        x = rng.random()
        if rng.random() < 0.05:
            # somebody else in the process builds a model (and registers a system with a familiar id there): nothing of ours may change
            other = d.core.Model()
            if rng.random() < 0.5 and names:
                other.systems.add_system(d.LogSystem(rng.choice(names), other, [], priority=rng.choice(PRIOS)))
            ctx.count('unrelated_models_constructed_mid_history')
        reg = [r['id'] for r in d.ref]
        unreg = [n for n in names if n not in reg]
        if x < 0.40 and unreg:
            n = rng.choice(unreg)
            o = objs[n]
            if n in ever_removed:
                if rng.random() < 0.4:
                    o.priority = o.intended_priority = rng.choice(pool)       # changed while unregistered: the new value counts
                if rng.random() < 0.2:                  # a different object under the old id
                    o = objs[n] = reps.pick_variant(rng, d.LogSystem.variants)(n, d.model, d.log, priority=P(rng.choice(pool)))
                rereg += 1
                ctx.count('reregistrations')
            d.add(o)
        elif x < 0.62 and reg:
            n = rng.choice(reg)
            d.remove(n, via_cleanup=rng.random() < 0.3)
            ever_removed.add(n)
        elif x < 0.70:
            # changes issued from inside a timestep by a system; the following steps must show the resulting order
            for _k in range(rng.randint(1, 3)):
                n = rng.choice(names)
                kind = rng.choice(['readd', 'readd', 'remove', 'add'])
                d.pending.append((kind, objs[n]))
                if kind != 'add':
                    ever_removed.add(n)
            d.step_mutating()
            ties += d.step()
            rereg += 1
        elif x < 0.73 and not big:
            d.step_failing()
            # the caller goes on: more registrations / removals may follow before the next (complete) timestep is compared
        elif x < 0.76:
            # one multi-step call, with registrations / removals / re-registrations applied by a system somewhere inside it
            n_ = rng.randint(2, 6)
            schedule = {}
            for _k in range(rng.randint(0, 2)):
                nm = rng.choice(names)
                kind = rng.choice(['readd', 'readd', 'remove', 'add'])
                schedule.setdefault(rng.randrange(n_), []).append((kind, objs[nm]))
                if kind != 'add':
                    ever_removed.add(nm)
            d.step_many(n_, schedule)
            ties += d.step()
            if schedule:
                rereg += 1
        elif x < 0.90:
            ties += d.step()
        elif x < 0.95 and reg:
            n = rng.choice(reg)
            if rng.random() < 0.5:
                d.add(objs[n])                          # same object again
            else:                                       # impostor with the same id and another priority
                d.add(d.LogSystem(n, d.model, d.log, priority=rng.choice(PRIOS)))
                ctx.count('impostor_add')
        else:
            d.remove(rng.choice(unreg) if unreg and rng.random() < 0.7 else 'nobody')
    for d in drivers:
        ties += d.step()
    d = drivers[0]
    if ties and rereg:
        ctx.distinct(('hist', tuple(r['prio'] for r in d.ref), ''.join(d.trace), len(drivers)))
    if case['i'] < 3:
        ctx.sample({'kind': 'history', 'i': case['i'], 'models': len(drivers), 'ops_model0': ''.join(d.trace)[:120],
                    'final_registered': [(r['id'], r['prio'], r['seq']) for r in d.ref],
                    'final_order': d.expected_order()})


def multisets(n):
    out = []
    # representative priority multisets: all distinct, one tie, two ties, all equal, with negatives/collector level
    base = [-1, 0, 0, 3, -10 ** 12, 3, 0][:n]
    out.append(tuple(range(n)))                               # all distinct
    out.append(tuple([0] * n))                                # all equal
    out.append(tuple(sorted(base)))
    out.append(tuple(sorted([(-1) ** j * (j // 2) for j in range(n)])))
    out.append(tuple(sorted([j // 2 for j in range(n)])))     # pairs of ties
    return sorted(set(out))


def case_perm(ctx, case):
    """All registration orders of one labelled priority multiset; each followed by 2 steps, a middle removal,
    a re-registration and another step."""
    ms = case['multiset']
    labelled = list(enumerate(ms))
    for perm in itertools.permutations(labelled):
        d = Driver(ctx)
        objs = {}
        for lab, p in perm:
            objs[lab] = d.LogSystem(f'p{lab}', d.model, d.log, priority=p)
            d.add(objs[lab])
        t = d.step()
        victim = perm[len(perm) // 2][0]
        d.remove(f'p{victim}')
        d.step()
        d.add(objs[victim])
        ctx.count('reregistrations')
        t += d.step()
        ctx.count('perm_orders')
        if t:
            ctx.distinct(('perm', tuple(p for _, p in perm), tuple(lab for lab, _ in perm)))
    ctx.sample({'kind': 'all registration orders', 'priority_multiset': list(ms)})


def run_case(ctx, case):
    if case['kind'] in ('hist', 'big'):
        case_history(ctx, case)
    else:
        case_perm(ctx, case)


def run(ctx):
    from vlib import contracts
    idx = 0
    for n in range(2, PERM_N[ctx.tier] + 1):
        for ms in multisets(n):
            if ctx.mine(idx) and not ctx.full():
                ctx.run_case({'kind': 'perm', 'multiset': list(ms)}, lambda c, case: run_case(c, case))
            idx += 1
    for i in range(N_HIST[ctx.tier]):
        if ctx.mine(i) and not ctx.full():
            ctx.run_case({'kind': 'hist', 'i': i}, lambda c, case: run_case(c, case))
    for i in range(N_BIG[ctx.tier]):
        if ctx.mine(i) and not ctx.full():
            ctx.run_case({'kind': 'big', 'i': i}, lambda c, case: run_case(c, case))
    for k, v in contracts.EVALS.items():
        ctx.count('contract:' + k, v)


def replay(ctx, case):
    ctx.run_case(case, lambda c, cs: run_case(c, cs))
