"""C13 - agent queries are exact filters; random picks stay within the filter.

Reference filter (identity, joining order) vs get_agents; freshness of the returned list; get_random_agent membership /
None-iff-empty / bounded-progress reachability (every member drawn within 60*k draws); shuffle is a permutation; none of
them alters the environment (full-state snapshot).
"""
from vlib.engine import CaseViolation
from vlib.snap import snapshot, diff
from vlib.util import check, same_objects

PROP = 'C13'
LEVEL = 'exploration'
SHARDS = {'quick': 4, 'thorough': 16}
TIMEOUT = {'quick': 300, 'thorough': 3000}
N_POP = {'quick': 1000, 'thorough': 80000}
N_BIG = {'quick': 12, 'thorough': 600}          # scale regime: 130-400 agents
RULE = ('cases: seeded populations of 0-12 agents (after an add/remove history, so joining order != creation order) with arbitrary subsets '
        'of 4 component types (plus a type nobody has) and tags from {0, registered tag ids, unregistered ints, -1}; model seeds vary per '
        'population; 12 queries each with templates of 0..4 types (repeats allowed) and tag filters {None, 0, each tag in use, unused}. '
        'Oracle: get_agents == reference filter (identity + joining order), fresh list each call (mutating it changes nothing); '
        'get_random_agent returns a member, None iff the filter is empty, and every member within 60*k draws (bounded-progress '
        'restatement of "reachable"); shuffle returns a permutation of the filter in a fresh list; environment snapshot unchanged by any '
        'query. Non-trivial query: the filter keeps some but not all agents AND involves a tag filter or >=2 types; distinct by '
        '(population signature, query). Between two identical questions a resident may hand back (or pick up) a component the question names, '
        'nobody joining or leaving - also in an environment that is not the model\'s current one.')
ASSUMPTIONS = ['"every member is reachable" is checked as: each of the k members is drawn within 60*k draws (a uniform pick misses one with probability < 1e-25)']
FLOORS = {'quick': {'residents_that_lost_a_component_between_two_identical_questions': 178, 'residents_that_gained_a_component_between_two_identical_questions': 142, 'rounds_whose_first_question_is_a_shuffle': 968, 'rounds_whose_first_question_is_a_random_pick': 984, 'queries_naming_a_catalogue_component': 952, 'agents_that_gave_a_component_back_before_joining': 757, 'rounds_of_departures_and_arrivals_between_two_queries': 483, 'populations_queried_after_their_model_completed': 85, 'cases_in_mode_debuglog': 84, 'joins_failing_half_way': 88, 'same_question_asked_of_an_unrelated_model_first': 1758, 'queries': 5964, 'tag_zero_queries': 800, 'tag_queries': 3000, 'template_queries': 4000, 'empty_filters': 1500,
                    'random_picks': 100000, 'reachability_checks': 700, 'shuffles': 8000, 'shuffles_reordered': 1626, 'size_preserving_swaps': 1500, 'big_populations': 6, 'ids_taken_over_by_new_objects': 100, 'nested_environment_agents': 300, 'removals_after_resident_attach': 60, 'secondary_environment_populations': 100, 'completed_model_populations': 80,
                    'reach:Core.Environment.get_agents': 100000, 'reach:Core.Environment.get_random_agent': 100000,
                    'reach:Core.Environment.shuffle': 8000},
          'thorough': {'queries': 480000, 'reachability_checks': 58467}}
EXHAUSTIVE = {}

_K = None


def fixtures():
    global _K
    import ECAgent.Core as core
    import ECAgent.Tags as tags
    if _K is None:
        _K = [type(f'T{i}', (core.Component,), {'__slots__': ()}) for i in range(5)]
        # a container-like component (an empty inventory has len 0) and a switch that is off: falsy objects are components too
        _K[1] = type('T1Inventory', (core.Component,), {'__slots__': (), '__len__': lambda self: 0})
        _K[3] = type('T3Switch', (core.Component,), {'__slots__': (), '__bool__': lambda self: False})
        # namesakes: distinct component classes that share their __name__ (same-named classes from two modules) - K[2] is carried like
        # K[0] and named like it; K[4], the type nobody has, is named like K[1]
        _K[2] = type('T0', (core.Component,), {'__slots__': ()})
        _K[4] = type('T1Inventory', (core.Component,), {'__slots__': ()})
        for n in ('C13_PREY', 'C13_PREDATOR'):
            try:
                tags.add_tag(n)
            except tags.DuplicateTagError:
                pass
    return core, tags, _K


_E = None


def extras(core):
    """A catalogue of 24 further component types (applications have dozens)."""
    global _E
    if _E is None:
        _E = [type(f'Gear{j}', (core.Component,), {'__slots__': ()}) for j in range(24)]
    return _E


def case_population(ctx, case):
    rng = ctx.rng('pop', case['i'])
    core, tags, K = fixtures()
    model = core.Model(seed=rng.randint(0, 10 ** 6))
    env = model.environment
    secondary = rng.random() < 0.3
    if secondary:
        # an environment that is NOT (or not yet) the model's current one: queries must still be about ITS agents
        env = core.Environment(model, id='second')
        decoy = core.Agent('decoy', model, tag=0)
        decoy.add_component(K[0](decoy, model))
        model.environment.add_agent(decoy)
        ctx.count('secondary_environment_populations')
    tagpool = [0, 0, tags.C13_PREY, tags.C13_PREDATOR, 77, -1]
    universe = []
    for j in range(rng.choice([0, 1, 2] + list(range(3, 13)) * 2)):
        t = rng.choice(tagpool + [None])
        a = core.Agent(f'a{j}', model, tag=t) if t is not None else core.Agent(f'a{j}', model)
        for T in K[:4]:
            if rng.random() < 0.65:
                a.add_component(T(a, model))
        if rng.random() < 0.35:
            # equipment from a larger catalogue of component types, part of which is handed back before the agent joins
            e1, e2 = rng.sample(extras(core), 2)
            a.add_component(e1(a, model))
            a.add_component(e2(a, model))
            a.remove_component(e1)
            ctx.count('agents_that_gave_a_component_back_before_joining')
        universe.append(a)
    for j in range(rng.choice([0, 0, 1, 2])):
        # environments are agents too: a nested environment (district, herd, ...) carrying components and a few agents of its own
        t = rng.choice(tagpool)
        sub = core.Environment(model, id=f'nested{j}')
        sub.tag = t
        for T in K[:4]:
            if rng.random() < 0.8:
                sub.add_component(T(sub, model))
        for q in range(rng.choice([0, 0, 1, 3])):
            sub.add_agent(core.Agent(f'inner{j}_{q}', model))
        universe.append(sub)
        ctx.count('nested_environment_agents')
    order = []
    for a in rng.sample(universe, len(universe)):
        env.add_agent(a)
        order.append(a)
    completed_early = rng.random() < 0.1
    if completed_early:
        model.complete()
    for a in list(order):
        x = rng.random()
        if x < 0.2:
            env.remove_agent(a.id)
            order.remove(a)
            if rng.random() < 0.5:
                env.add_agent(a)
                order.append(a)
    if not completed_early and rng.random() < 0.2:
        model.complete()
    if not model.is_running():
        # the model's run is over: its environment is queried on (a stopping rule's own system, a post-run report, a score function)
        ctx.count('populations_queried_after_their_model_completed')
    if rng.random() < 0.3:
        # a join that fails half-way in ANOTHER small model (a component of the newcomer had been registered by hand): listing and random
        # selection still agree - every agent the listing shows can be drawn, nothing else can
        from vlib import faults
        m2 = core.Model(seed=rng.randint(0, 999))
        for j in range(2):
            m2.environment.add_agent(core.Agent(f'r{j}', m2))
        m2.environment.get_random_agent()
        nb = core.Agent('newcomer', m2)
        for T in K[:3]:
            nb.add_component(T(nb, m2))
        m2.systems.register_component(nb[K[rng.randint(1, 2)]])
        _, err = faults.attempt(m2.environment.add_agent, nb)
        listed = m2.environment.get_agents()
        drawn = {id(m2.environment.get_random_agent()) for _ in range(60 * max(1, len(listed)))}
        ctx.count('joins_failing_half_way')
        if drawn != {id(a) for a in listed}:
            raise CaseViolation('after a join that failed half-way the agents that get_random_agent() can return are not those that get_agents() lists',
                                listed=[a.id for a in listed], never_drawn=[a.id for a in listed if id(a) not in drawn], error=repr(err))
    poisoned = []
    if len(order) >= 2 and rng.random() < 0.25:
        # a removal that FAILS must leave membership and joining order alone.  (Attaching a component to a resident agent and then
        # removing the agent is C03's known finding F2: today it raises KeyError and the agent stays; a repaired library removes it.)
        victim = rng.choice(order[:-1])
        if K[4] not in victim.components:
            victim.add_component(K[4](victim, model))
            ctx.count('removals_after_resident_attach')        # (counted whatever the outcome: a floor must not demand a defect)
            try:
                env.remove_agent(victim.id)
                order.remove(victim)
            except KeyError:
                ctx.count('failed_removals')
                poisoned.append(victim)       # its listings are half-deregistered now (F2): the driver never removes it again
    completed = rng.random() < 0.2
    if completed:
        model.complete()         # reporting code samples a finished model: queries and picks keep working
        ctx.count('completed_model_populations')
    prev_q = repeat_q = None
    for qn in range(12):
        if qn and order and rng.random() < 0.4:
            # membership change between two queries that keeps the population size: one leaves, one (re-)joins
            gone = rng.choice([a for a in order if not any(a is b for b in poisoned)] or order)
            if any(gone is b for b in poisoned):
                continue
            env.remove_agent(gone.id)
            order.remove(gone)
            outside = [a for a in universe if not any(a is b for b in order)]
            back = rng.choice(outside)
            env.add_agent(back)
            order.append(back)
            ctx.count('size_preserving_swaps')
        elif qn and len(order) >= 3 and not poisoned and rng.random() < 0.35:
            # a whole round of departures and arrivals between two queries (a model step that culls and re-admits): several agents leave -
            # often the most recent arrival among them - and as many join, in any order; agent objects come back as themselves
            newest = order[-1]
            leaving = rng.sample(order[:-1], rng.randint(1, min(3, len(order) - 1))) + ([newest] if rng.random() < 0.7 else [])
            for a_ in leaving:
                env.remove_agent(a_.id)
                order.remove(a_)
            outside = [a for a in universe if not any(a is b for b in order)]
            arriving = rng.sample(outside, len(leaving))
            if any(newest is a_ for a_ in leaving) and rng.random() < 0.7:
                arriving = [a_ for a_ in arriving if a_ is not newest][:len(leaving) - 1] + [newest]     # ... the former newest comes back last
            for a_ in arriving:
                env.add_agent(a_)
                order.append(a_)
            ctx.count('rounds_of_departures_and_arrivals_between_two_queries')
        elif qn and order and prev_q is not None and rng.random() < 0.2:
            # no one joins or leaves, but a resident's equipment changes between two identical questions: it hands back a component
            # the previous question asked for (or picks one up), and the same question is asked again
            T_ = rng.choice(prev_q[0]) if prev_q[0] and rng.random() < 0.8 else rng.choice(K[:4])
            have = [a for a in order if T_ in a.components and not any(a is b for b in poisoned)]
            lack = [a for a in order if T_ not in a.components]
            if have and (not lack or rng.random() < 0.6):
                rng.choice(have).remove_component(T_)
                ctx.count('residents_that_lost_a_component_between_two_identical_questions')
            elif lack:
                a_ = rng.choice(lack)
                a_.add_component(T_(a_, model))
                if not any(a_ is b for b in poisoned):
                    poisoned.append(a_)          # (C03's F2: an agent that gained a component as a resident is never asked to leave again)
                ctx.count('residents_that_gained_a_component_between_two_identical_questions')
            repeat_q = prev_q
        popsig = tuple((a.id, a.tag, tuple(sorted(t.__name__ for t in a.components))) for a in order)
        nt = rng.choice([0, 0, 0, 1, 1, 1, 2, 2, 3, 4])
        template = [rng.choice(K) for _ in range(nt)]
        geared = [t_ for a_ in order for t_ in a_.components if t_.__name__.startswith('Gear')]
        if geared and rng.random() < 0.3:
            template = template[:2] + [rng.choice(geared)]         # a template that names a catalogue type somebody carries
            ctx.count('queries_naming_a_catalogue_component')
        tag = rng.choice([None, None, None, 0, 0, rng.choice(tagpool), rng.choice(tagpool), 12345])
        kw = {} if tag is None and rng.random() < 0.5 else {'tag': tag}
        if repeat_q is not None:
            template, tag, kw = list(repeat_q[0]), repeat_q[1], dict(repeat_q[2])
            repeat_q = None
        prev_q = (list(template), tag, dict(kw))
        exp = [a for a in order if all(T in a.components for T in template) and (tag is None or a.tag == tag)]
        q = dict(template=[T.__name__ for T in template], tag=tag)
        before = (snapshot(model, universe, K), [id(a) for a in env])
        if rng.random() < 0.5:
            # an unrelated model, alive at the same time, whose few agents carry none of these components and no such tag, is asked the same
            # question first (by the three query functions): its answer is 'nobody', and ours is our own
            if not hasattr(case_population, 'decoy') or case_population.decoy[0] is not model:
                dm = core.Model(seed=1)
                for j in range(2):
                    dm.environment.add_agent(core.Agent(f'd{j}', dm, tag=777))
                case_population.decoy = (model, dm)
            dm = case_population.decoy[1]
            if template or tag is not None:
                check(dm.environment.get_agents(*template, **kw) == [] and dm.environment.get_random_agent(*template, **kw) is None
                      and dm.environment.shuffle(*template, **kw) == [], 'the unrelated model found agents matching a filter nobody there matches', query=q)
                ctx.count('same_question_asked_of_an_unrelated_model_first')
        first_ = rng.random()
        if first_ < 0.25:
            # the random pick is the FIRST thing asked after the changes (nothing has listed the agents since)
            r_ = env.get_random_agent(*template, **kw)
            ctx.count('rounds_whose_first_question_is_a_random_pick')
            if (r_ is None) != (not exp) or (r_ is not None and not any(r_ is a for a in exp)):
                raise CaseViolation('get_random_agent, asked first after a round of changes, returned an agent outside the filter (or None on a '
                                    'non-empty filter)', query=q, returned=getattr(r_, 'id', repr(r_)), members=[a.id for a in exp], population=popsig)
        elif first_ < 0.5:
            s_ = env.shuffle(*template, **kw)
            ctx.count('rounds_whose_first_question_is_a_shuffle')
            if not (isinstance(s_, list) and sorted(map(id, s_)) == sorted(map(id, exp))):
                raise CaseViolation('shuffle, asked first after a round of changes, is not a permutation of the filter', query=q,
                                    expected=[a.id for a in exp], observed=[getattr(a, 'id', repr(a)) for a in s_], population=popsig)
        got = env.get_agents(*template, **kw)
        ctx.ev()
        ctx.count('queries')
        if tag == 0:
            ctx.count('tag_zero_queries')
        if tag is not None:
            ctx.count('tag_queries')
        if template:
            ctx.count('template_queries')
        if not exp:
            ctx.count('empty_filters')
        if not (isinstance(got, list) and same_objects(got, exp)):
            raise CaseViolation('get_agents differs from the reference filter', query=q, expected=[a.id for a in exp],
                                observed=[getattr(a, 'id', repr(a)) for a in got], population=popsig)
        got2 = env.get_agents(*template, **kw)
        check(got2 is not got, 'get_agents returned the same list object twice', query=q)
        if tag is None and rng.random() < 0.3:
            from vlib import reps
            check(same_objects(reps.deprecated_call(env.getAgents, *template), exp), 'the deprecated getAgents() differs from the reference filter', query=q)
            r_ = reps.deprecated_call(env.getRandomAgent, *template)
            check((r_ is None and not exp) or any(r_ is a for a in exp), 'the deprecated getRandomAgent() returned an agent outside the filter', query=q)
            for a in order[:3]:
                check(reps.deprecated_call(a.hasComponent, *template) == all(T in a.components for T in template),
                      'the deprecated hasComponent() disagrees with the agent\'s components', query=q)
            ctx.count('deprecated_alias_calls')
        del got[:]
        got.append('junk')
        check(same_objects(env.get_agents(*template, **kw), exp), 'mutating a returned list changed later answers', query=q)
        # random picks
        k = len(exp)
        if qn % 4 == 0 and k:
            seen = set()
            for _ in range(60 * k):
                r = env.get_random_agent(*template, **kw)
                if not any(r is a for a in exp):
                    raise CaseViolation('get_random_agent returned an agent outside the filter', query=q, returned=getattr(r, 'id', repr(r)),
                                        members=[a.id for a in exp])
                seen.add(id(r))
            ctx.count('random_picks', 60 * k)
            ctx.count('reachability_checks')
            if len(seen) != k:
                raise CaseViolation(f'only {len(seen)} of {k} matching agents were ever picked in {60 * k} draws', query=q,
                                    members=[a.id for a in exp])
        else:
            for _ in range(3):
                r = env.get_random_agent(*template, **kw)
                ctx.count('random_picks')
                if k == 0:
                    check(r is None, f'get_random_agent returned {r!r} for an empty filter', query=q)
                elif not any(r is a for a in exp):
                    raise CaseViolation('get_random_agent returned an agent outside the filter (or None on a non-empty filter)', query=q,
                                        returned=getattr(r, 'id', repr(r)), members=[a.id for a in exp])
        # shuffle
        s1 = env.shuffle(*template, **kw)
        s2 = env.shuffle(*template, **kw)
        ctx.count('shuffles', 2)
        for s in (s1, s2):
            if not (isinstance(s, list) and sorted(map(id, s)) == sorted(map(id, exp))):
                raise CaseViolation('shuffle is not a permutation of the filter', query=q, expected=[a.id for a in exp],
                                    observed=[getattr(a, 'id', repr(a)) for a in s])
        check(s1 is not s2, 'shuffle returned the same list object twice')
        if k >= 2 and (not same_objects(s1, exp) or not same_objects(s2, exp)):
            ctx.count('shuffles_reordered')
        after = (snapshot(model, universe, K), [id(a) for a in env])
        if before != after:
            raise CaseViolation(f'queries changed the environment: {diff(before[0], after[0]) or "membership/order"}', query=q)
        check(same_objects(list(env), order), 'queries changed the iteration order of the environment', query=q)
        # the last question of the round is, at random, one of the three (with a template of its own) - or none
        t_last = [rng.choice(K) for _ in range(rng.choice([0, 1, 2]))]
        rng.choice([lambda: env.get_agents(*t_last), lambda: env.get_random_agent(*t_last), lambda: env.shuffle(*t_last), lambda: len(env), lambda: None])()
        order_now = list(env)
        check(same_objects(order_now, order), 'a query changed the iteration order of the environment', query=q)
        if 0 < k < len(order) and (tag is not None or len(set(template)) >= 2):
            ctx.distinct((popsig, tuple(q['template']), tag))
    ctx.state(popsig)
    if case['i'] < 3:
        ctx.sample({'kind': 'population', 'i': case['i'], 'population': popsig, 'last_query': q, 'answer': [a.id for a in exp]})



def case_big(ctx, case):
    """Scale regime: 130-400 agents; component types carried by very few agents; agents that obtain a component after they joined; ids that
    are given up by one agent object and taken by another; hundreds of random picks."""
    rng = ctx.rng('big', case['i'])
    core, tags, K = fixtures()
    model = core.Model(seed=rng.randint(0, 10 ** 6))
    env = model.environment
    n = rng.choice([130, 200, 400])
    universe, order = [], []
    for j in range(n):
        a = core.Agent(f'a{j}', model, tag=rng.choice([0, 0, 1, 2]))
        if rng.random() < 0.6:
            a.add_component(K[0](a, model))
        if rng.random() < 0.04:
            a.add_component(K[1](a, model))           # rare type
        universe.append(a)
        env.add_agent(a)
        order.append(a)
    for a in rng.sample(order, n // 8):               # e.g. infection spreading: obtained while resident (has_component is what counts)
        if K[2] not in a.components:
            a.add_component(K[2](a, model))
    # turnover: agents leave and DIFFERENT objects join under the same ids
    for a in rng.sample(order, n // 5):
        env.remove_agent(a.id) if K[2] not in a.components else None
        if K[2] in a.components:
            continue
        order.remove(a)
        b = core.Agent(a.id, model, tag=rng.choice([0, 1]))
        b.add_component(K[0](b, model))
        universe.append(b)
        env.add_agent(b)
        order.append(b)
        ctx.count('ids_taken_over_by_new_objects')

    def expect(template, tag):
        return [a for a in order if all(T in a.components for T in template) and (tag is None or a.tag == tag)]

    for template, tag in [((), None), ((K[0],), None), ((K[1],), None), ((K[2],), None), ((K[0], K[2]), 1), ((K[1],), 0), ((), 2), ((K[3],), None)]:
        exp = expect(template, tag)
        kw = {} if tag is None else {'tag': tag}
        got = env.get_agents(*template, **kw)
        ctx.ev()
        ctx.count('big_queries')
        if not same_objects(got, exp):
            raise CaseViolation(f'get_agents in an environment with {len(order)} agents differs from the reference filter',
                                template=[T.__name__ for T in template], tag=tag, n_expected=len(exp), n_observed=len(got),
                                missing=[a.id for a in exp if not any(a is b for b in got)][:8], extra=[a.id for a in got if not any(a is b for b in exp)][:8])
        sh = env.shuffle(*template, **kw)
        check(sorted(map(id, sh)) == sorted(map(id, exp)), 'shuffle of a large filter is not a permutation of it', n_expected=len(exp), n_observed=len(sh))
        for _ in range(150 if exp else 3):
            r = env.get_random_agent(*template, **kw)
            ctx.count('random_picks')
            if (r is None) != (not exp) or (r is not None and not any(r is a for a in exp)):
                raise CaseViolation('random pick in a large environment returned an object outside the filter (or None on a non-empty filter)',
                                    template=[T.__name__ for T in template], tag=tag, returned=getattr(r, 'id', r),
                                    is_resident=any(r is a for a in order))
    check(same_objects(list(env), order), 'queries changed the environment')
    ctx.count('big_populations')
    ctx.distinct(('big', n, case['i']))


def run_case(ctx, case):
    (case_big if case.get('kind') == 'big' else case_population)(ctx, case)


def run(ctx):
    for i in range(N_POP[ctx.tier]):
        if ctx.mine(i) and not ctx.full():
            ctx.run_case({'kind': 'pop', 'i': i}, run_case)
    for i in range(N_BIG[ctx.tier]):
        if ctx.mine(i) and not ctx.full():
            ctx.run_case({'kind': 'big', 'i': i}, run_case)


def replay(ctx, case):
    ctx.run_case(case, run_case)
