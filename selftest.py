#!/venv/bin/python
"""Sensitivity self-test: applies each realistic break (mutants/mutants.json: exact-string replacements; seeded/<id>/patch.diff:
independent changes written by sub-agents) to a scratch copy of the tree OUTSIDE /repo and /verif, confirms the repository's
own test-suite still passes there, runs the property's check with VERIF_REPO pointing at the copy and expects exit 1 with a
VIOLATION line. The copy is deleted afterwards. Results: evidence/selftest.json (informational).

usage: selftest.py [--only NAME_SUBSTR ...] [--prop Cxx] [--tier quick] [--no-pytest] [--seeded] [-j N]
"""
import argparse
import concurrent.futures
import json
import os
import shutil
import subprocess
import sys
import tempfile
import time

HERE = os.path.dirname(os.path.abspath(__file__))
REPO = '/repo'


def make_copy():
    d = tempfile.mkdtemp(prefix='ecagent-mut-', dir=os.environ.get('VERIF_SCRATCH', '/tmp'))
    for name in ('ECAgent', 'tests', 'DummyScripts'):
        shutil.copytree(os.path.join(REPO, name), os.path.join(d, name),
                        ignore=shutil.ignore_patterns('__pycache__', '*.pyc'))
    return d


def apply_spec(root, m):
    for ch in m['changes']:
        p = os.path.join(root, ch['file'])
        with open(p, newline='') as f:
            s = f.read()
        old, new = ch['old'], ch['new']
        if '\r\n' in s:
            old, new = old.replace('\n', '\r\n'), new.replace('\n', '\r\n')
        n = s.count(old)
        if n != ch.get('count', 1):
            raise RuntimeError(f'{m["name"]}: {ch["file"]}: pattern occurs {n}x, expected {ch.get("count", 1)}')
        s = s.replace(old, new)
        with open(p, 'w', newline='') as f:
            f.write(s)


def apply_patch(root, patch):
    r = subprocess.run(['patch', '-p1', '--no-backup-if-mismatch', '-i', patch], cwd=root, capture_output=True, text=True)
    if r.returncode != 0:
        raise RuntimeError(f'patch failed: {r.stdout[-500:]} {r.stderr[-500:]}')


def run_pytest(root):
    r = subprocess.run(['/venv/bin/python', '-B', '-m', 'pytest', '-q', '-x', '-p', 'no:cacheprovider', 'tests'], cwd=root,
                       capture_output=True, text=True, timeout=240,
                       env=dict(os.environ, PYTHONPATH=root, PYTHONDONTWRITEBYTECODE='1'))
    tail = r.stdout.strip().splitlines()[-1] if r.stdout.strip() else ''
    return r.returncode == 0, tail


def one(m, tier, do_pytest, seed):
    t0 = time.time()
    root = make_copy()
    res = {'name': m['name'], 'property': m['property'], 'needs': m.get('needs', '')}
    try:
        if 'patch' in m:
            apply_patch(root, m['patch'])
        else:
            apply_spec(root, m)
        if do_pytest:
            ok, tail = run_pytest(root)
            res['tests_pass'] = ok
            res['pytest'] = tail
        props = m['property'] if isinstance(m['property'], list) else [m['property']]
        res['checks'] = {}
        caught = False
        for p in props:
            r = subprocess.run([os.path.join(HERE, 'check'), p, '--tier', tier], capture_output=True, text=True,
                               timeout=3600, env=dict(os.environ, VERIF_REPO=root, VERIF_SEED=str(seed),
                                                      VERIF_EVIDENCE_DIR=os.path.join(root, '.evidence')))
            viol = [ln for ln in r.stdout.splitlines() if ln.startswith('VIOLATION')]
            first = [ln for ln in r.stdout.splitlines() if 'first violation' in ln]
            res['checks'][p] = {'exit': r.returncode, 'violation_line': bool(viol),
                                'what': first[0].strip()[:300] if first else '',
                                'other': [ln for ln in r.stdout.splitlines() if ln.startswith('INCONCLUSIVE')][:3]}
            if r.returncode == 1 and viol:
                caught = True
        res['caught'] = caught
    except Exception as e:  # noqa
        res['error'] = f'{type(e).__name__}: {e}'
        res['caught'] = False
    finally:
        shutil.rmtree(root, ignore_errors=True)
    res['wall_s'] = round(time.time() - t0, 1)
    return res


def main():
    ap = argparse.ArgumentParser()
    ap.add_argument('--only', nargs='*')
    ap.add_argument('--prop')
    ap.add_argument('--tier', default='quick')
    ap.add_argument('--no-pytest', action='store_true')
    ap.add_argument('--seeded', action='store_true', help='also run seeded/<id>/patch.diff changes')
    ap.add_argument('--seed', type=int, default=0)
    ap.add_argument('-j', type=int, default=4)
    ap.add_argument('--merge', action='store_true', help='with --only/--prop: replace the re-run entries in evidence/selftest.json and recompute its summary')
    a = ap.parse_args()
    sys.path.insert(0, HERE)
    from mutants import specs
    muts = list(specs.MUTANTS)
    if a.seeded:
        sd = os.path.join(HERE, 'seeded')
        for d in sorted(os.listdir(sd)):
            mp = os.path.join(sd, d, 'meta.json')
            if os.path.exists(mp):
                with open(mp) as f:
                    meta = json.load(f)
                muts.append({'name': 'seeded/' + d, 'property': meta['property'], 'patch': os.path.join(sd, d, 'patch.diff'),
                             'needs': meta.get('needs', ''), 'out_of_scope': meta.get('out_of_scope')})
    if a.prop:
        muts = [m for m in muts if a.prop in (m['property'] if isinstance(m['property'], list) else [m['property']])]
    if a.only:
        muts = [m for m in muts if any(o in m['name'] for o in a.only)]
    results = []
    with concurrent.futures.ThreadPoolExecutor(max_workers=a.j) as ex:
        futs = [ex.submit(one, m, a.tier, not a.no_pytest, a.seed) for m in muts]
        for f in futs:
            r = f.result()
            results.append(r)
            tp = r.get('tests_pass')
            print(f"{'CAUGHT' if r['caught'] else 'MISSED'}  {r['name']:<48} {r['property']}  "
                  f"tests={'pass' if tp else ('FAIL' if tp is False else '-')}  {r.get('error', '')} "
                  f"{'; '.join(c['what'] for c in r.get('checks', {}).values())[:160]}", flush=True)
    all_muts = muts
    if a.merge and (a.only or a.prop):
        with open(os.path.join(HERE, 'evidence', 'selftest.json')) as f:
            old = json.load(f)['results']
        fresh = {r['name']: r for r in results}
        results = [fresh.pop(r['name'], r) for r in old] + list(fresh.values())
        all_muts = list(specs.MUTANTS)
        sd = os.path.join(HERE, 'seeded')
        for d in sorted(os.listdir(sd)):
            mp = os.path.join(sd, d, 'meta.json')
            if os.path.exists(mp):
                with open(mp) as f:
                    all_muts.append({'name': 'seeded/' + d, 'out_of_scope': json.load(f).get('out_of_scope')})
    scope = {m['name']: m.get('out_of_scope') for m in all_muts if isinstance(m, dict)}
    surviving = [r for r in results if r.get('tests_pass') is not False]
    summary = {'mutants': len(results), 'test_surviving': len(surviving),
               'caught': sum(1 for r in surviving if r['caught']),
               'missed': [r['name'] for r in surviving if not r['caught'] and not scope.get(r['name'])],
               # changes a sub-agent offered that do not break the property as stated (reason in seeded/<id>/meta.json): not claimed
               'not_caught_judged_out_of_scope': {r['name']: scope[r['name']] for r in surviving if not r['caught'] and scope.get(r['name'])},
               'killed_by_tests_only_reported': [r['name'] for r in results if r.get('tests_pass') is False]}
    if (not a.only and not a.prop) or a.merge:
        with open(os.path.join(HERE, 'evidence', 'selftest.json'), 'w') as f:
            json.dump({'summary': summary, 'tier': a.tier, 'results': results}, f, indent=1)
    print(json.dumps(summary, indent=1))
    return 0 if not summary['missed'] else 1


if __name__ == '__main__':
    sys.exit(main())
